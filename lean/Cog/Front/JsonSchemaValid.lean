/-
  C01 (b) — validation semantics of the compiled JSON Schema value `JS` (draft-04 … 2020-12 as compiled by
  santhosh-tekuri/jsonschema/v5: the draft differences are already resolved in the compiled value, e.g.
  boolean `exclusiveMinimum`, ignored siblings of `$ref` before 2019-09, `items` vs `Items2020`).
  Core Lean only (the driver evaluates it next to the library's own `Schema.Validate`: stream `c01-front`).

  `jsv x fmt defs n s j`: document `j` satisfies every keyword of `s` that the model reads — boolean
  schemas, `$ref`, `type` (string or array), `const`, `enum`, `allOf` / `anyOf` / `oneOf`, `required`,
  `properties`, `additionalProperties` (bool or schema), `items` (single schema), `minLength` / `maxLength`
  (runes), `minimum` / `maximum` / `exclusive…` (exact rationals), asserted `format` (through the oracle
  `fmt`: the theorems hold for EVERY oracle, the driver instantiates `date-time`).  Keywords the model does
  not read are listed by the encoder in `JAttrs.unmodelled` (`modelled` below): on such schemas `jsv` is
  weaker than real validity (real-valid ⇒ `jsv`), which is the direction parser soundness needs.

  `x = true` is the STRICT reading used as hypothesis of the soundness theorem: valid, and outside the three
  recorded exclusions of the document languages `srcDen` / `den` (each a known C01 finding about the generated
  Go types, not about the front-end):
    S1  a value admitted through `type: integer` lies in the int64 range;
    S2  an optional member, or a value behind a reference to a named array / map definition, is not an empty
        `[]` / `{}` when its schema is read as a collection;
    S3  a value admitted by a schema that is read as `any` holds no integer of magnitude ≥ 2^53.
  `jsValid = jsv false` is plain validity; `jsv true` implies it (`jsv_strict_valid`).
-/
import Cog.Front.JsonSchema
import Cog.Sem.Den
namespace Cog.Front.JsonSchema
open Cog.IR Cog.Sem

/-! ### JSON equality between a schema-side value and a document -/

def membersMatchWith (m : JV → Json → Bool) (kvs : List (String × JV)) (ms : List (String × Json)) : Bool :=
  kvs.all fun kv => match Json.lookup kv.1 ms with
    | some v => m kv.2 v
    | none => false

mutual
def jvMatches : JV → Json → Bool
  | .null, .null => true
  | .bool a, .bool b => a == b
  | .str a, .str b => a == b
  | .num t f, .num q =>
    (match parseInt64 t with
     | some n => q == 4 * n
     | none => f ≠ "" && Json.parseNum f == some q)
  | .arr xs, .arr ys => jvMatchesList xs ys
  | .obj kvs, .obj ms => kvs.length == ms.length && keysNodup ms && jvMatchesMembers kvs ms
  | _, _ => false
def jvMatchesList : List JV → List Json → Bool
  | [], [] => true
  | x :: xs, y :: ys => jvMatches x y && jvMatchesList xs ys
  | _, _ => false
def jvMatchesMembers : List (String × JV) → List (String × Json) → Bool
  | [], _ => true
  | (k, v) :: t, ms =>
    (match Json.lookup k ms with
     | some j => jvMatches v j
     | none => false) && jvMatchesMembers t ms
end

/-! ### keyword checks -/

def inInt64 (n : Int) : Bool := decide (-9223372036854775808 ≤ n ∧ n ≤ 9223372036854775807)

/-- `type` (one name) -/
def typeOK (x : Bool) (t : String) (j : Json) : Bool :=
  if t = "null" then j.isNull
  else if t = "boolean" then (match j with | .bool _ => true | _ => false)
  else if t = "string" then (match j with | .str _ => true | _ => false)
  else if t = "number" then (match j with | .num _ => true | _ => false)
  else if t = "integer" then (match j with | .num q => decide (q % 4 = 0) && (!x || inInt64 (q / 4)) | _ => false)
  else if t = "object" then (match j with | .obj _ => true | _ => false)
  else if t = "array" then (match j with | .arr _ => true | _ => false)
  else false

def typesOK (x : Bool) (ts : List String) (j : Json) : Bool :=
  ts.isEmpty || ts.any fun t => typeOK x t j

/-- q/4 compared with num/den (den > 0) -/
def geBound (q : Int) (b : Bound) : Bool := decide (4 * b.num ≤ q * b.den)
def gtBound (q : Int) (b : Bound) : Bool := decide (4 * b.num < q * b.den)
def leBound (q : Int) (b : Bound) : Bool := decide (q * b.den ≤ 4 * b.num)
def ltBound (q : Int) (b : Bound) : Bool := decide (q * b.den < 4 * b.num)

def optB (o : Option Bound) (f : Bound → Bool) : Bool := match o with | some b => f b | none => true

def boundsOK (a : JAttrs) (j : Json) : Bool :=
  match j with
  | .num q => optB a.minimum (geBound q) && optB a.exclMinimum (gtBound q) &&
              optB a.maximum (leBound q) && optB a.exclMaximum (ltBound q)
  | _ => true

def lengthOK (a : JAttrs) (j : Json) : Bool :=
  match j with
  | .str s => (a.minLength == -1 || decide (a.minLength ≤ (s.length : Int))) &&
              (a.maxLength == -1 || decide ((s.length : Int) ≤ a.maxLength))
  | _ => true

def formatOK (fmt : String → String → Bool) (a : JAttrs) (j : Json) : Bool :=
  match j with
  | .str s => !a.fmtAsserted || fmt a.format s
  | _ => true

def constOKJ (a : JAttrs) (j : Json) : Bool :=
  match a.const with
  | some c => jvMatches c j
  | none => true

def enumOKJ (a : JAttrs) (j : Json) : Bool :=
  match a.enum with
  | some vs => vs.any fun v => jvMatches v j
  | none => true

def requiredOK (a : JAttrs) (j : Json) : Bool :=
  match j with
  | .obj ms => a.required.all fun r => (Json.lookup r ms).isSome
  | _ => true

def countTrue : List Bool → Nat
  | [] => 0
  | b :: bs => (if b then 1 else 0) + countTrue bs

/-- the schema without any keyword (`{}`, `true`) -/
def emptyJS : JS := .mk {} [] [] [] [] .none .none .none

/-! ### how the generator reads a schema (syntactic, one level): collection / any -/

def noCombinator (a : JAttrs) : Bool :=
  a.ref.isNone && !a.hasOneOf && !a.hasAnyOf && !a.hasAllOf && a.enum.isNone

def addlIsSchema : JAddl → Bool | .schema _ => true | _ => false

/-- `walkDefinition` reaches `walkObject` -/
def objectPath (a : JAttrs) (addl : JAddl) : Bool :=
  a.types == ["object"] || (a.types.isEmpty && (a.hasProps || a.hasPatternProps || !addlIsNone addl))

/-- the generator reads the schema as an array or a map -/
def jsIsColl : JS → Bool
  | .mk a _ _ _ props addl _ _ =>
    noCombinator a && (a.types == ["array"] || (objectPath a addl && props.isEmpty && addlIsSchema addl))

/-- over-approximation of `isCollLike` of the type read from the schema: also a two-branch union over a collection -/
def jsCollLike : JS → Bool
  | .mk a oneOf anyOf allOf props addl items items2020 =>
    jsIsColl (.mk a oneOf anyOf allOf props addl items items2020) ||
    (a.ref.isNone && ((a.hasOneOf && oneOf.length == 2 && oneOf.any jsIsColl) ||
                      (!a.hasOneOf && a.hasAnyOf && anyOf.length == 2 && anyOf.any jsIsColl)))

/-- the generator reads the schema as `any` -/
def jsIsAny : JS → Bool
  | .mk a _ _ _ props addl _ _ =>
    noCombinator a &&
    ((a.types.isEmpty && !(a.hasProps || a.hasPatternProps || !addlIsNone addl) && a.const.isNone) ||
     (objectPath a addl && props.isEmpty && !addlIsSchema addl))

def propsHas (props : List (String × JS)) (k : String) : Bool := props.any fun p => p.1 == k

/-! ### validity -/

/-- `$ref` (strict: S2 behind a reference to a collection definition) -/
def refPart (x : Bool) (defs : Defs) (v : JS → Json → Bool) (a : JAttrs) (j : Json) : Bool :=
  match a.ref with
  | some name =>
    (match lookupDef defs name with
     | some t => v t j && !(x && jsIsColl t && isEmptyColl j)
     | none => false)
  | none => true

/-- `properties` / `additionalProperties` / `items` (strict: S2 on optional members) -/
def bodyPart (x : Bool) (v : JS → Json → Bool) (a : JAttrs) (props : List (String × JS)) (addl : JAddl)
    (items items2020 : JItems) (j : Json) : Bool :=
  match j with
  | .obj ms =>
    props.all (fun p => match Json.lookup p.1 ms with
      | some w => v p.2 w && !(x && !a.required.contains p.1 && jsCollLike p.2 && isEmptyColl w)
      | none => true) &&
    ms.all (fun kv => propsHas props kv.1 ||
      (match addl with
       | .none => true
       | .bool b => b
       | .schema s => v s kv.2))
  | .arr xs =>
    (match items2020 with
     | .one s => xs.all (v s)
     | _ =>
       match items with
       | .one s => xs.all (v s)
       | .none => xs.all (v emptyJS)
       | .tuple _ => true)
  | _ => true

/-- one level of validation; `v` validates the sub-schemas -/
def jsvBody (x : Bool) (fmt : String → String → Bool) (defs : Defs) (v : JS → Json → Bool) : JS → Json → Bool
  | .mk a oneOf anyOf allOf props addl items items2020, j =>
    (match a.always with | some b => b | none => true) &&
    refPart x defs v a j &&
    typesOK x a.types j && constOKJ a j && enumOKJ a j &&
    allOf.all (fun s => v s j) &&
    (!a.hasAnyOf || anyOf.any (fun s => v s j)) &&
    (!a.hasOneOf || countTrue (oneOf.map fun s => v s j) == 1) &&
    requiredOK a j &&
    bodyPart x v a props addl items items2020 j &&
    lengthOK a j && boundsOK a j && formatOK fmt a j &&
    !(x && jsIsAny (.mk a oneOf anyOf allOf props addl items items2020) && !anyExact j)

def jsv (x : Bool) (fmt : String → String → Bool) (defs : Defs) : Nat → JS → Json → Bool
  | 0, _, _ => false
  | n + 1, s, j => jsvBody x fmt defs (jsv x fmt defs n) s j

/-- validity against the compiled schema -/
def jsValid (fmt : String → String → Bool) (defs : Defs) (n : Nat) (s : JS) (j : Json) : Bool := jsv false fmt defs n s j

/-- validity outside the three recorded exclusions (hypothesis of the soundness theorem) -/
def jsValidX (fmt : String → String → Bool) (defs : Defs) (n : Nat) (s : JS) (j : Json) : Bool := jsv true fmt defs n s j

/-! ### every keyword is modelled (side condition of the comparison with the library's validator) -/

mutual
def modelled : JS → Bool
  | .mk a oneOf anyOf allOf props addl items items2020 =>
    a.unmodelled.isEmpty && modelledList oneOf && modelledList anyOf && modelledList allOf &&
    modelledProps props && modelledAddl addl && modelledItems items && modelledItems items2020
def modelledList : List JS → Bool
  | [] => true
  | s :: ss => modelled s && modelledList ss
def modelledProps : List (String × JS) → Bool
  | [] => true
  | (_, s) :: ps => modelled s && modelledProps ps
def modelledAddl : JAddl → Bool
  | .schema s => modelled s
  | _ => true
def modelledItems : JItems → Bool
  | .none => true
  | .one s => modelled s
  | .tuple ss => modelledList ss
end

def modelledDefs (defs : Defs) (root : JS) : Bool := modelled root && defs.all fun d => modelled d.2

end Cog.Front.JsonSchema
