/-
  C01 (b) — model of the CUE front-end, internal/simplecue/{generator.go,utils.go}, from a VIEW of the
  library's value (`cue.Value` after `load.Instances` + `cuecontext.BuildInstance`) down to the FULL IR, compared
  VIR-equal with the real `simplecue.GenerateAST` (stream `c01-front-cue`, harness/c01_front_cue.go, driver
  Cog/Drv/FrontCueDrv.lean).  Core Lean only.

  `CV` holds exactly the answers of the cue API calls the generator makes on a value (`CInfo`) and the views of the
  values it reaches from it:
    * `ikind` / `kind` = `IncompleteKind()` / `Kind()` (names of the kinds the generator switches on, `other` else),
      `enumOK` = `ik&(String|Int) == ik`, `op` / `nargs` = `Expr()` (operand views only under `&` and `|`);
    * `refPath` = `ReferencePath()`'s path text, `refName` = label of its last selector (the default `NameFunc`),
      `refPkg` = `referenceResolver.PackageForNode(v.Source(), pkg)` (data computed by the encoder from the syntax
      node, no libraries and no import alias), `refBadSel` = the LAST selector of the path is neither a pattern
      constraint, a string label nor a definition label (the guard at the top of `declareReference`, fixes 0643960
      and 81c841c);
      a value with a reference path carries nothing below it
      (`declareNode` stops at `declareReference`);
    * `hasDefault`, `dflt` = `Default()` as `cueConcreteToScalar` reads it (`CS`), its reference path, `Equals(v)`;
    * `concrete`, `scalar` = `IsConcrete()`, the value as `cueConcreteToScalar` reads it;
    * `attrs` = the `@cog` / `@cuetsy` attributes of `Attributes(ValueAttr)` with their arguments and the answers of
      `Lookup(0, "kind")` / `Lookup(0, "memberNames")` (at most one such attribute in the fragment);
    * `docs` = the texts of the comment groups `commentsFromCueValue` reads;
    * `pairEq` / `pairSub` / `pair0Ref` (two operands): `a.Equals(b)`, mutual `Subsume`, reference path of the first;
    * `orsplit` = `IsConcrete()` of every value of `appendSplit(nil, OrOp, v)`; `andsplit` = the values of
      `appendSplit(nil, AndOp, v)` (string kind) — `appendSplit` itself (a copy of cue's openapi helper, with its
      `Subsume(Raw)` de-duplication) is part of the view;
    * numbers: `syn` = `format.Node(v.Syntax())`, `csyn` the same for the value `declareNumberConstraints` reads
      (first operand when there is a default), `cFloat` = its kind `IsAnyOf(FloatKind)`, `lits` = Go's
      `ParseFloat` of the bound literals of `csyn` (float conversion stays data);
    * lists: `allowsAny` = `Allows(AnyIndex)`, `elem` = `LookupPath(AnyIndex)` of the peeled value (if it exists);
    * structs: `evalOp` = operator of `v.Eval()`, `anyExists` = `LookupPath(AnyString).Exists()`,
      `evalHasFields` = `hasStructFields`, `anystr` = that value's view; `fields` = `Fields(Optional, Definitions)`.
  The root is the list of `Fields(Definitions(true))` of the top value, whose path has no selector (so that
  `areCuePathsFromSameRoot` is false and `declareReference` takes its second branch).  References inside the schema
  package are to top-level fields (`defs` is keyed by the reference path text); the encoder refuses anything else.
  Recursion: `declareNode` consumes one unit of fuel per call; helpers take the recursive call as parameter.
-/
import Cog.IR.Basic
import Cog.Front.JsonSchema
namespace Cog.Front.Cue
open Cog.IR
open Cog.OMap (rget rset)
open Cog.Front.JsonSchema (obind obind_ok m0 anyTy nullTy stringTy hintSet parseInt64)

/-- a value as `cueConcreteToScalar` reads it -/
inductive CS where
  | null
  | v (x : Val)                 -- String() / Float64() / Int64() / Bool() succeeded
  | err                         -- … failed
  | errkind                     -- a kind `cueConcreteToScalar` has no case for
  | list (xs : List CS)
  | struct (kvs : List (String × CS))
  | bottomNone
  | bottomSome (d : CS)
  deriving Inhabited

inductive Look where
  | none | some (s : String) | err
  deriving Inhabited

structure CAttr where
  name : String
  args : List (String × String)
  kind : Look
  memberNames : Look
  deriving Inhabited

structure Conj where
  op : String
  callName : String
  arg : CS
  refPath : String
  concrete : Bool
  scalar : CS
  deriving Inhabited

structure CInfo where
  ikind : String := "top"
  kind : String := "bottom"
  op : String := "no"
  nargs : Nat := 1
  enumOK : Bool := false
  refPath : String := ""
  refName : String := ""
  refPkg : String := ""
  refBadSel : Bool := false
  hasDefault : Bool := false
  dflt : CS := .null
  dfltRefPath : String := ""
  dfltEqSelf : Bool := false
  concrete : Bool := false
  scalar : CS := .null
  attrs : List CAttr := []
  docs : List String := []
  pairEq : Bool := false
  pairSub : Bool := false
  pair0Ref : String := ""
  orsplit : List Bool := []
  andsplit : List Conj := []
  syn : String := ""
  csyn : String := ""
  cFloat : Bool := false
  lits : List (String × Val) := []
  allowsAny : Bool := false
  evalOp : String := ""
  anyExists : Bool := false
  evalHasFields : Bool := false
  deriving Inhabited

/-- `args`: (branch.Equals(default), operand); `elem` / `anystr`: zero or one value;
    `fields`: (label, IsDefinition, IsOptional, value) -/
inductive CV where
  | mk (i : CInfo) (args : List (Bool × CV)) (elem : List CV) (anystr : List CV) (fields : List (String × Bool × Bool × CV))
  deriving Inhabited

def CV.info : CV → CInfo | .mk i .. => i
def CV.args : CV → List (Bool × CV) | .mk _ a .. => a
def CV.elem : CV → List CV | .mk _ _ e .. => e
def CV.anystr : CV → List CV | .mk _ _ _ a _ => a
def CV.fields : CV → List (String × Bool × Bool × CV) | .mk _ _ _ _ f => f

/-- top-level fields: (selector text = reference path, object name, value) -/
abbrev Top := List (String × String × CV)

def lookupTop (defs : Top) (path : String) : Option CV :=
  match defs with
  | [] => none
  | (p, _, v) :: rest => if p = path then some v else lookupTop rest path

/-! ### cueConcreteToScalar -/

def mapSet (k : String) (v : Val) : List (String × Val) → List (String × Val) := hintSet k v

mutual
def csVal : CS → Outcome Val
  | .null => .ok .nil
  | .v x => .ok x
  | .err => .err "conversion"
  | .errkind => .err "can not convert kind to scalar"
  | .list xs => obind (csList xs) fun vs => .ok (if vs.isEmpty then .nil else .list vs)
  | .struct kvs => obind (csFields kvs) fun m => .ok (if m.isEmpty then .nil else .map m)
  | .bottomNone => .ok .nil
  | .bottomSome d => csVal d
def csList : List CS → Outcome (List Val)
  | [] => .ok []
  | x :: xs => obind (csVal x) fun v => obind (csList xs) fun vs => .ok (v :: vs)
/-- `newMap[label] = value` in iteration order; the result is the key-sorted map -/
def csFields : List (String × CS) → Outcome (List (String × Val))
  | [] => .ok []
  | (k, x) :: rest => obind (csVal x) fun v => obind (csFields rest) fun m =>
      .ok (if (m.any fun kv => kv.1 = k) then m else mapSet k v m)
end

/-- `extractDefault` -/
def extractDefault (i : CInfo) : Outcome Val :=
  if i.hasDefault then csVal i.dflt else .ok .nil

/-- `hintsFromCueValue` -/
def hintsOf (i : CInfo) : List (String × Val) :=
  i.attrs.foldl (fun h a => a.args.foldl (fun h kv => hintSet kv.1 (.str kv.2) h) h) []

/-! ### commentsFromCueValue -/

def trimFront : List Char → List Char
  | c :: cs => if c = '\n' ∨ c = ' ' then trimFront cs else c :: cs
  | [] => []

def trimBoth (cs : List Char) : List Char := (trimFront (trimFront cs).reverse).reverse

def splitLinesAux : List Char → List Char → List String
  | [], cur => [String.ofList cur.reverse]
  | c :: cs, cur => if c = '\n' then String.ofList cur.reverse :: splitLinesAux cs [] else splitLinesAux cs (c :: cur)

def commentsOf (i : CInfo) : List String :=
  i.docs.foldr (fun t acc => splitLinesAux (trimBoth t.toList) [] ++ acc) []

/-! ### strings.Split -/

def dropPrefix? : List Char → List Char → Option (List Char)
  | [], s => some s
  | _ :: _, [] => none
  | p :: ps, c :: cs => if p = c then dropPrefix? ps cs else none

/-- `strings.Split(s, sep)` for a non-empty `sep` (fuel = length of the text) -/
def splitAux (sep : List Char) : Nat → List Char → List Char → List String
  | 0, _, cur => [String.ofList cur.reverse]
  | _ + 1, [], cur => [String.ofList cur.reverse]
  | n + 1, c :: cs, cur =>
    match dropPrefix? sep (c :: cs) with
    | some rest => String.ofList cur.reverse :: splitAux sep n rest []
    | none => splitAux sep n cs (c :: cur)

def splitStr (s sep : String) : List String := splitAux sep.toList (s.length + 1) s.toList []

/-! ### isImplicitEnum, enums -/

/-- `getTypeHint` -/
def getTypeHint (i : CInfo) : Outcome String :=
  match i.attrs.getLast? with
  | none => .ok ""
  | some a =>
    match a.kind with
    | .err => .err "attribute lookup"
    | .none => .err "no value for the \"kind\" key in @cog attribute"
    | .some t => .ok t

/-- `isImplicitEnum` -/
def isImplicitEnum (i : CInfo) : Outcome Bool :=
  obind (getTypeHint i) fun t =>
    if t = "enum" then .ok true
    else if i.orsplit.length = 1 then .ok false
    else if !i.enumOK then .ok false
    else .ok (i.orsplit.all id)

def memberText (s : CS) : String :=
  match s with
  | .v (.str t) => t
  | _ => ""

/-- the loop of `extractEnumValues` (`names`: the memberNames, when the attribute gives them) -/
def enumMembers (kind : String) : Option (List String) → List (Bool × CV) → Outcome (List EnumVal)
  | _, [] => .ok []
  | names, (_, dv) :: rest =>
    let text := match names with
      | some (n :: _) => n
      | some [] => ""
      | none => memberText dv.info.scalar
    if !dv.info.concrete then .err "enums may only be generated from a disjunction of concrete strings or numbers"
    else obind (csVal dv.info.scalar) fun val =>
      obind (enumMembers kind (names.map List.tail) rest) fun more =>
        .ok ({ name := text, value := val, kind := kind } :: more)

/-- `extractEnumValues` -/
def extractEnumValues (v : CV) : Outcome (List EnumVal) :=
  let i := v.info
  if i.nargs ≠ v.args.length then .panic "model: operands of the enum are not in the view" else
  let names : Outcome (Option (List String)) :=
    match i.attrs.head? with
    | none => .ok none
    | some a =>
      match a.memberNames with
      | .some val =>
        let evals := splitStr val "|"
        if evals.length ≠ v.args.length then .err "enums and memberNames attributes size doesn't match" else .ok (some evals)
      | _ => .ok none
  obind names fun names =>
    if i.ikind ≠ "string" ∧ names.isNone then .err "numeric enums may only be generated from memberNames attribute"
    else enumMembers (if i.ikind = "int" then "int64" else "string") names v.args

/-- `declareAnonymousEnum` -/
def declareAnonymousEnum (v : CV) (defVal : Val) (hints : List (String × Val)) : Outcome Ty :=
  if !v.info.enumOK then .err "enums may only be generated from concrete strings, or ints"
  else obind (extractEnumValues v) fun vals => .ok (.enum vals { dflt := defVal, hints := hints })

/-! ### scalars -/

/-- the `ast.Value(...)` option of `scalarTypeOptions` -/
def concreteValue (i : CInfo) : Outcome Val :=
  if i.concrete then csVal i.scalar else .ok .nil

/-- the loop of `declareStringConstraints` -/
def stringConstraintLoop : List Conj → Outcome (List Constraint)
  | [] => .ok []
  | c :: rest =>
    if c.op ≠ "call" then stringConstraintLoop rest
    else if c.callName = "strings.MinRunes" then
      obind (csVal c.arg) fun s => obind (stringConstraintLoop rest) fun more => .ok ({ op := "minLength", args := [s] } :: more)
    else if c.callName = "strings.MaxRunes" then
      obind (csVal c.arg) fun s => obind (stringConstraintLoop rest) fun more => .ok ({ op := "maxLength", args := [s] } :: more)
    else stringConstraintLoop rest

/-- `declareStringConstraints` -/
def declareStringConstraints (i : CInfo) : Outcome (List Constraint) :=
  if i.andsplit.length = 1 then .ok []
  else if i.concrete then
    match i.scalar with
    | .v (.str s) => .ok [{ op := "==", args := [.str s] }]
    | _ => .err "could not convert concrete value to string"
  else stringConstraintLoop i.andsplit

def valIsNil : Val → Bool | .nil => true | _ => false

/-- `stringOrIntegerFromEnum`, for conjuncts without reference path (the encoder refuses the others): `ok false`
    = "not an enum member"; the only other outcomes are errors -/
def stringOrIntegerFromEnum (i : CInfo) (defVal : Val) : Outcome Bool :=
  if !valIsNil defVal then .ok false
  else if i.andsplit.length = 1 then .ok false
  else
    match i.andsplit with
    | [] => .panic "index out of range [0]"
    | c0 :: rest =>
      if c0.concrete then .ok false
      else
        match (if i.andsplit.length > 2 then rest.getLast? else rest.head?) with
        | none => .panic "index out of range [1]"
        | some c1 =>
          obind (csVal c1.scalar) fun val =>
            if valIsNil val then .ok false
            else if c0.refPath ≠ "" then .panic "model: conjunct with a reference path"
            else .panic "model: PackageForNode of a conjunct is not in the view"

/-- `declareString` -/
def declareString (i : CInfo) (defVal : Val) (hints : List (String × Val)) : Outcome Ty :=
  obind (concreteValue i) fun value =>
  obind (stringOrIntegerFromEnum i defVal) fun _ =>
  obind (declareStringConstraints i) fun cs =>
    .ok (.scalar "string" value cs { dflt := defVal, hints := hints })

/-! ### numbers -/

def numberKindOf (candidate : String) : Option String :=
  if candidate = "float32" ∨ candidate = "float64" ∨ candidate = "uint8" ∨ candidate = "uint16" ∨ candidate = "uint32"
     ∨ candidate = "uint64" ∨ candidate = "int8" ∨ candidate = "int16" ∨ candidate = "int32" ∨ candidate = "int64" then some candidate
  else if candidate = "uint" then some "uint64"
  else if candidate = "int" then some "int64"
  else if candidate = "float" then some "float64"
  else if candidate = "number" then some "float64"
  else none

def numberTypeOf (parts : List String) : String :=
  parts.foldl (fun acc p => match numberKindOf p with | some k => k | none => acc) ""

/-- `extractOperatorAndArg` on a part that starts with `<` or `>` -/
def extractOperatorAndArg (i : CInfo) (part : List Char) : Outcome Constraint :=
  let mk (op : String) (text : List Char) : Outcome Constraint :=
    let t := String.ofList text
    if i.cFloat then
      match i.lits.find? (fun kv => kv.1 = t) with
      | some kv => .ok { op := op, args := [kv.2] }
      | none => .err "ParseFloat"
    else
      match parseInt64 t with
      | some n => .ok { op := op, args := [.int "i64" n] }
      | none => .err "ParseInt"
  match part with
  | '>' :: '=' :: t => mk ">=" t
  | '>' :: c :: t => mk ">" (c :: t)
  | '<' :: '=' :: t => mk "<=" t
  | '<' :: c :: t => mk "<" (c :: t)
  | _ => .panic "index out of range"

def numberConstraintLoop (i : CInfo) : List String → Outcome (List Constraint)
  | [] => .ok []
  | p :: rest =>
    match p.toList with
    | [] => .panic "index out of range [0]"
    | c :: cs =>
      if c ≠ '<' ∧ c ≠ '>' then numberConstraintLoop i rest
      else obind (extractOperatorAndArg i (c :: cs)) fun k => obind (numberConstraintLoop i rest) fun more => .ok (k :: more)

/-- `declareNumberConstraints` -/
def declareNumberConstraints (i : CInfo) : Outcome (List Constraint) :=
  numberConstraintLoop i (splitStr i.csyn " & ")

/-- `declareNumber` -/
def declareNumber (i : CInfo) (defVal : Val) (hints : List (String × Val)) : Outcome Ty :=
  let t0 := numberTypeOf (splitStr i.syn " ")
  let t :=
    if t0 = "" ∧ i.concrete then
      (if i.kind = "float" then "float64" else if i.kind = "int" then "int64" else if i.kind = "number" then "float64" else "")
    else t0
  if t = "" then .err "could not infer number type from expression"
  else
    obind (concreteValue i) fun value =>
    obind (declareNumberConstraints i) fun cs =>
      .ok (.scalar t value cs { dflt := defVal, hints := hints })

/-! ### the generator -/

structure St where
  objects : Objects := []
  deriving Inhabited

abbrev Walk := CV → St → Outcome (Ty × St)

/-- `declareObject` -/
def declareObject (w : Walk) (pkg name : String) (v : CV) (st : St) : Outcome St :=
  if (rget name st.objects).isSome then .ok st
  else
    let o : Obj := { name := name, comments := commentsOf v.info, ty := .bad "" {}, selfPkg := pkg, selfName := name }
    let st1 : St := { st with objects := rset name o st.objects }
    obind (isImplicitEnum v.info) fun ie =>
      let built : Outcome (Ty × St) :=
        if ie then
          obind (extractDefault v.info) fun d => obind (declareAnonymousEnum v d (hintsOf v.info)) fun t => .ok (t, st1)
        else w v st1
      obind built fun r => .ok { r.2 with objects := rset name { o with ty := r.1 } r.2.objects }

/-- `declareReference(v, defV)` (the root value has an empty path: only the second branch can be taken) -/
def declareReference (w : Walk) (pkg : String) (defs : Top) (v defV : CInfo) (st : St) : Outcome (Ty × St) :=
  if v.refBadSel then .err "unsupported reference to a hidden field or a local variable"
  else if v.refPath = "" then .ok (.bad "" {}, st)
  else
    obind (extractDefault defV) fun d =>
      if v.refPkg = "time" ∧ v.refName = "Time" then
        .ok (.scalar "string" .nil [] { dflt := d, hints := [("string_format_datetime", .bool true)] }, st)
      else if v.refPkg = pkg then
        (if (rget v.refName st.objects).isSome then .ok (.ref pkg v.refName { dflt := d }, st)
         else
           match lookupTop defs v.refPath with
           | none => .panic "model: reference to a value that is not a top-level field"
           | some target => obind (declareObject w pkg v.refName target st) fun st' => .ok (.ref pkg v.refName { dflt := d }, st'))
      else .ok (.ref v.refPkg v.refName { dflt := d }, st)

/-- the loop of `structFields` -/
def structFieldLoop (w : Walk) (pkg : String) : List (String × Bool × Bool × CV) → St → Outcome (List Field × St)
  | [], st => .ok ([], st)
  | (label, isDef, optional, fv) :: rest, st =>
    if isDef then obind (declareObject w pkg label fv st) fun st' => structFieldLoop w pkg rest st'
    else
      obind (w fv st) fun r =>
        obind (structFieldLoop w pkg rest r.2) fun more =>
          .ok ({ name := label, ty := r.1, required := !optional, comments := commentsOf fv.info } :: more.1, more.2)

def walkList (w : Walk) : List CV → St → Outcome (List Ty × St)
  | [], st => .ok ([], st)
  | b :: rest, st => obind (w b st) fun r => obind (walkList w rest r.2) fun more => .ok (r.1 :: more.1, more.2)

/-- the branches `declareDisjunction` keeps -/
def keptBranches (i : CInfo) (args : List (Bool × CV)) : List CV :=
  (args.filter fun a => !(i.hasDefault && a.1 && a.2.info.refPath = i.dfltRefPath)).map (·.2)

/-- `declareDisjunction` -/
def declareDisjunction (w : Walk) (v : CV) (hints : List (String × Val)) (defVal : Val) (st : St) : Outcome (Ty × St) :=
  obind (isImplicitEnum v.info) fun ie =>
    if ie then obind (declareAnonymousEnum v defVal hints) fun t => .ok (t, st)
    else if v.info.nargs ≠ v.args.length then .panic "model: operands of the disjunction are not in the view"
    else
      let kept := keptBranches v.info v.args
      match kept with
      | [one] => if v.args.length ≠ 1 then w one st else obind (walkList w kept st) fun r => .ok (.disj r.1 {} { dflt := defVal, hints := hints }, r.2)
      | _ => obind (walkList w kept st) fun r => .ok (.disj r.1 {} { dflt := defVal, hints := hints }, r.2)

/-- `declareList` -/
def declareList (w : Walk) (v : CV) (hints : List (String × Val)) (defVal : Val) (st : St) : Outcome (Ty × St) :=
  if !v.info.allowsAny then .err "closed lists are not supported"
  else
    match v.elem with
    | [] => .err "open list must have a type"
    | e :: _ => obind (w e st) fun r => .ok (.array r.1 { dflt := defVal, hints := hints }, r.2)

/-- the `StructKind` case of `declareNode` -/
def declareStruct (w : Walk) (pkg : String) (v : CV) (hints : List (String × Val)) (defVal : Val) (st : St) : Outcome (Ty × St) :=
  match (if v.info.evalOp = "no" ∧ v.info.anyExists ∧ !v.info.evalHasFields then v.anystr else []) with
  | a :: _ => obind (w a st) fun r => .ok (.map stringTy r.1 { dflt := defVal, hints := hints }, r.2)
  | [] =>
    if v.info.evalOp = "no" ∧ v.info.anyExists ∧ !v.info.evalHasFields then .panic "model: the AnyString value is not in the view"
    else
    obind (structFieldLoop w pkg v.fields st) fun r =>
      if r.1.isEmpty then .ok (anyTy, r.2)
      else .ok (.struct r.1 [] none { dflt := defVal }, r.2)

/-- `removeTautologicalUnification` -/
def removeTaut (v : CV) : CV :=
  if v.info.op = "and" ∧ v.info.nargs = 2 ∧ v.info.pairEq ∧ v.info.pairSub then
    match v.args with
    | a :: _ => a.2
    | [] => v
  else v

/-- `getReference`: `some (v, def)` when the node refers to another definition -/
def getReference (v : CV) : Option (CInfo × CInfo) :=
  let i := v.info
  if i.refPath ≠ "" then some (i, i)
  else if i.nargs ≠ 2 then none
  else
    match v.args with
    | [a0, a1] =>
      if i.kind = "bottom" ∧ i.ikind = "struct" ∧ i.pair0Ref ≠ "" ∧ (i.op = "no" ∨ i.hasDefault) then some (a0.2.info, i)
      else if i.op = "and" ∧ i.pairSub then some (a0.2.info, a1.2.info)
      else none
    | _ => none

/-- `declareNode` after `removeTautologicalUnification` -/
def nodeBody (w : Walk) (pkg : String) (defs : Top) (v : CV) (st : St) : Outcome (Ty × St) :=
  match getReference v with
  | some (rv, dv) => declareReference w pkg defs rv dv st
  | none =>
    let i := v.info
    obind (extractDefault i) fun defVal =>
    let hints := hintsOf i
    if i.op = "or" ∧ i.nargs > 1 then declareDisjunction w v hints defVal st
    else if i.ikind = "top" then .ok (anyTy, st)
    else if i.ikind = "null" then .ok (nullTy, st)
    else if i.ikind = "bool" then obind (concreteValue i) fun value => .ok (.scalar "bool" value [] { dflt := defVal, hints := hints }, st)
    else if i.ikind = "bytes" then obind (concreteValue i) fun value => .ok (.scalar "bytes" value [] { dflt := defVal, hints := hints }, st)
    else if i.ikind = "string" then obind (declareString i defVal hints) fun t => .ok (t, st)
    else if i.ikind = "float" ∨ i.ikind = "number" ∨ i.ikind = "int" then obind (declareNumber i defVal hints) fun t => .ok (t, st)
    else if i.ikind = "list" then declareList w v hints defVal st
    else if i.ikind = "struct" then declareStruct w pkg v hints defVal st
    else .err "unexpected node with kind"

/-- `declareNode` -/
def declareNode (pkg : String) (defs : Top) : Nat → CV → St → Outcome (Ty × St)
  | 0, _, _ => .err "fuel"
  | fuel + 1, v, st => nodeBody (declareNode pkg defs fuel) pkg defs (removeTaut v) st

/-- `walkCueSchema` -/
def walkTop (w : Walk) (pkg : String) : Top → St → Outcome St
  | [], st => .ok st
  | (_, name, v) :: rest, st => obind (declareObject w pkg name v st) fun st' => walkTop w pkg rest st'

/-- `GenerateAST` (no envelope, default naming, external references kept as references) -/
def generateAST (pkg : String) (fuel : Nat) (top : Top) : Outcome Schema :=
  obind (walkTop (declareNode pkg top fuel) pkg top {}) fun st =>
    .ok { pkg := pkg, objects := st.objects }

/-- the front-end as a function to schema sets -/
def cueFront (pkg : String) (fuel : Nat) (top : Top) : Outcome Schemas :=
  obind (generateAST pkg fuel top) fun s => .ok [s]

end Cog.Front.Cue
