/-
  C01 (b) — the decidable fragment `FragOA` of OpenAPI component tables on which parser soundness is proved.
  Core Lean only (evaluated by the driver on every case of `c01-front-oa`).

  A schema (reference) is in the fragment when the generator reads it as one of
    ref      a same-file `$ref` to a component that is itself not a reference and is read as a struct, an enum,
             a plain scalar (not nullable, no constant pattern, no `date-time` / `byte`), an array or a map;
    string   `type: string`, any length limits, `nullable`, `format` other than `byte`; a `pattern` is either not a
             constant for the generator or a constant `^text$` without regular-expression syntax in `text`;
    integer / number   with any bounds, `format`, `nullable`;
    boolean  not `nullable` (the generator drops `nullable` there: `null` would be valid but not in the IR type);
    enum     `type: string | integer`, at least one value, not `nullable`;
    any      nothing the generator reads (incl. `type: object` without properties and additionalProperties schema);
    array    `type: array` with `items` in the fragment, not `nullable`;
    map      `type: object` without properties, `additionalProperties` a schema of the fragment, not `nullable`;
    struct   `type: object` with properties (key-sorted), `additionalProperties: false`, not `nullable`; every member in
             the fragment; an OPTIONAL member is not a reference to an array / map component.
  Outside: `allOf` / `anyOf` / `oneOf`, open objects, `nullable` on booleans / enums / arrays / objects, references to
  references, to nullable scalars, to `any`, to constants, to `date-time` strings.
-/
import Cog.Front.OpenApiValid
namespace Cog.Front.OpenApi
open Cog.IR Cog.Sem

/-- fuel added on the `srcDen` side -/
def oaSlack : Nat := 2

def isSome' : OOpt → Bool | .some _ => true | .none => false

def sortedKeys : List (String × OSR) → Bool
  | [] => true
  | (k, _) :: rest => (rest.all fun p => decide (k < p.1) && !decide (p.1 < k)) && sortedKeys rest

/-- the generator reads the pattern as a constant only when it is a plain `^text$` -/
def patternOK (a : OAttrs) : Bool :=
  a.pattern = "" || !Cog.Front.JsonSchema.regexMatchesConstantString a.pattern || (constPattern a.pattern).isSome

/-- a component a reference may point to -/
def targetOK : OSR → Bool
  | .mk ref hasValue _ (.mk a _ _ _ props addl _) =>
    !isRef ref && hasValue && !a.hasAllOf && !a.hasAnyOf && !a.hasOneOf &&
    (match a.enum with
     | some _ => true
     | none =>
       (typeIs a "string" && !a.nullable && a.format ≠ "date-time" && a.format ≠ "byte" &&
          (a.pattern = "" || !Cog.Front.JsonSchema.regexMatchesConstantString a.pattern)) ||
       ((typeIs a "integer" || typeIs a "number") && !a.nullable) ||
       typeIs a "boolean" || typeIs a "array" ||
       (typeIs a "object" && (!props.isEmpty || isSome' addl)))

def refOK (cs : Components) (ref : String) : Bool :=
  match lookupComp cs (lastSegment ref) with
  | some t => targetOK t
  | none => false

/-- a reference to a component that is read as an array or a map -/
def refToColl (cs : Components) : OSR → Bool
  | .mk ref _ _ _ =>
    isRef ref && (match lookupComp cs (lastSegment ref) with | some t => osrIsColl t | none => false)

/-- the kind test of `fragS`; `fItems` / `fAddl` / `fProps`: the sub-schemas are in the fragment -/
def kindOK (a : OAttrs) (props : List (String × OSR)) (addl items : OOpt) (fItems fAddl fProps : Bool) : Bool :=
  match a.enum with
  | some vs => !vs.isEmpty && (typeIs a "string" || typeIs a "integer") && !a.nullable
  | none =>
    if typeIs a "string" then a.format ≠ "byte" && patternOK a
    else if typeIs a "integer" || typeIs a "number" then true
    else if typeIs a "boolean" then !a.nullable
    else if typeIs a "array" then !a.nullable && fItems && isSome' items
    else if typeIs a "object" then
      (if props.isEmpty then (!isSome' addl || (!a.nullable && fAddl))
       else !a.nullable && a.addlHas == some false && !isSome' addl && sortedKeys props && fProps)
    else true

mutual
def fragR (cs : Components) : OSR → Bool
  | .mk ref hasValue _ v => if isRef ref then refOK cs ref else hasValue && fragS cs v
def fragS (cs : Components) : OS → Bool
  | .mk a allOf anyOf oneOf props addl items =>
    !a.hasAllOf && !a.hasAnyOf && !a.hasOneOf && allOf.isEmpty && anyOf.isEmpty && oneOf.isEmpty &&
    (!a.isEmpty || osIsAny (.mk a allOf anyOf oneOf props addl items)) &&
    kindOK a props addl items (fragO cs items) (fragO cs addl) (fragP cs a.required props)
def fragO (cs : Components) : OOpt → Bool
  | .none => true
  | .some r => fragR cs r
def fragP (cs : Components) (required : List String) : List (String × OSR) → Bool
  | [] => true
  | (k, r) :: ps => fragR cs r && (required.contains k || !refToColl cs r) && fragP cs required ps
end

def keysNodupC : Components → Bool
  | [] => true
  | (k, _) :: rest => !(rest.any fun c => c.1 == k) && keysNodupC rest

/-- every component of the table is in the fragment; the component names are unique (they are map keys) -/
def FragOA (cs : Components) : Bool := keysNodupC cs && cs.all fun c => fragR cs c.2

/-- the root component is one a reference may point to (and its name has no `/`: the generator names a reference by
    the last `/`-segment of the reference text) -/
def rootFrag (cs : Components) (root : String) : Bool :=
  refOK cs ("#/components/schemas/" ++ root) && lastSegment ("#/components/schemas/" ++ root) == root

/-! ### why is a table outside the fragment? (diagnostic) -/

def firstSomeO {α} (f : α → Option String) : List α → Option String
  | [] => none
  | x :: xs => match f x with | some r => some r | none => firstSomeO f xs

mutual
partial def fragRWhy (cs : Components) : OSR → Option String
  | .mk ref hasValue _ v =>
    if isRef ref then
      (match lookupComp cs (lastSegment ref) with
       | none => some "dangling-ref"
       | some t =>
         if targetOK t then none else
         match t with
         | .mk r _ _ (.mk a _ _ _ _ _ _) =>
           some ("ref-to:" ++ (if isRef r then "ref" else if a.hasAllOf then "allOf" else if a.hasAnyOf || a.hasOneOf then "union"
             else if a.nullable then "nullable" else if a.format = "date-time" then "date-time" else if a.pattern ≠ "" then "const-pattern"
             else "any-or-other")))
    else if !hasValue then some "no-value" else fragSWhy cs v
partial def fragSWhy (cs : Components) : OS → Option String
  | .mk a _ _ _ props addl items =>
    if a.hasAllOf then some "allOf" else if a.hasAnyOf || a.hasOneOf then some "union" else
    match a.enum with
    | some vs => if vs.isEmpty then some "empty-enum" else if a.nullable then some "nullable-enum"
                 else if typeIs a "string" || typeIs a "integer" then none else some "enum-type"
    | none =>
      if typeIs a "string" then (if a.format = "byte" then some "byte" else if patternOK a then none else some "const-pattern-with-regex-syntax")
      else if typeIs a "integer" || typeIs a "number" then none
      else if typeIs a "boolean" then (if a.nullable then some "nullable-boolean" else none)
      else if typeIs a "array" then
        (if a.nullable then some "nullable-array" else match items with | .some r => fragRWhy cs r | .none => some "array-without-items")
      else if typeIs a "object" then
        (if props.isEmpty then (match addl with
           | .some r => if a.nullable then some "nullable-map" else fragRWhy cs r
           | .none => none)
         else if a.nullable then some "nullable-object"
         else if !(a.addlHas == some false) || isSome' addl then some "open-object"
         else if !sortedKeys props then some "props-not-sorted"
         else firstSomeO (fun (p : String × OSR) =>
           match fragRWhy cs p.2 with
           | some r => some r
           | none => if a.required.contains p.1 || !refToColl cs p.2 then none else some "optional-ref-to-collection") props)
      else none
end

def fragOAWhy (cs : Components) : String :=
  (firstSomeO (fun (c : String × OSR) => fragRWhy cs c.2) cs).getD "-"

end Cog.Front.OpenApi
