/-
  C01 (b) — the decidable fragment `FragJS` of compiled JSON Schema values on which parser soundness
  (`valid against the schema ⇒ in srcDen of the IR the front-end builds`) is proved.  Core Lean only (the
  driver evaluates `FragJS` on every case of the `c01-front` stream).

  A schema node is in the fragment when the generator reads it as one of
    ref      `$ref` to a definition that is read as a struct, an enum, a plain scalar (no `const`, no
             `date-time`, no `pattern`), an array or a map;
    enum     `enum` whose values are all strings or all integers of the int64 range (whatever `type` says:
             the generator looks at `enum` first);
    const    untyped `const` of a string, a boolean or a number (`walkUntypedConstant`);
    any      no keyword the generator reads (`{}`, boolean-free), or an object without properties and
             without an `additionalProperties` schema;
    scalar   `type` boolean / string / number / integer with any `const`, `default`, bounds, lengths,
             `format` (a string `pattern` is outside: the constant-from-regex reading is not validation);
    array    `type: array` with a single `items` schema of the fragment, or none;
    map      `type: object`, no properties, `additionalProperties` a schema of the fragment;
    struct   `type: object`, properties (key-sorted: it is a Go map), `additionalProperties: false`; every
             property schema in the fragment; an OPTIONAL property is not a reference to an array / map
             definition (srcDen's `empty collection behind an alias` exclusion also rejects the absent member);
  and, in property / item / map-value position and as a definition, additionally
    T|null   `anyOf` / `oneOf` of exactly two branches, one `{type: null}`, the other one of the kinds above
             (not a reference to an array / map definition), or `type: [T, "null"]` with a scalar `T`.
  Outside: `allOf`, unions of several non-null branches, `type` arrays of several non-null names, `const: null`,
  open objects (`additionalProperties` absent / true / schema next to properties), `type: null`
  alone, boolean schemas, references to definitions read as `any`, as a union, as a reference, as a constant.
-/
import Cog.Front.JsonSchemaValid
namespace Cog.Front.JsonSchema
open Cog.IR Cog.Sem

/-- fuel added on the `srcDen` side (an absent optional member of `T | null` type over a reference needs two units) -/
def soundSlack : Nat := 2

def isStrV : JV → Bool | .str _ => true | _ => false
def isIntV : JV → Bool | .num t _ => (parseInt64 t).isSome | _ => false

def enumValsOK : List JV → Bool
  | [] => false
  | v :: vs => ((v :: vs).all isStrV) || ((v :: vs).all isIntV)

def scalarTypeName (t : String) : Bool := t = "boolean" || t = "string" || t = "number" || t = "integer"

/-- `{"const": v}` without `type`, read by `walkUntypedConstant` as a constant scalar (not `null`) -/
def untypedConstOK (a : JAttrs) (addl : JAddl) : Bool :=
  !(a.hasProps || a.hasPatternProps || !addlIsNone addl) &&
  (match a.const with
   | some (.str _) => true
   | some (.bool _) => true
   | some (.num t f) => (parseInt64 t).isSome || f ≠ ""
   | _ => false)

/-- `{"type": "null"}` as the generator reads it (the null branch of a pair) -/
def isNullS : JS → Bool
  | .mk a _ _ _ _ _ _ _ => a.always.isNone && noCombinator a && a.types == ["null"]

/-- a definition a reference may point to: read as a struct, an enum, a plain scalar, an array or a map -/
def targetOK : JS → Bool
  | .mk a _ _ _ props addl _ _ =>
    a.ref.isNone && !a.hasOneOf && !a.hasAnyOf && !a.hasAllOf &&
    (a.enum.isSome ||
     (match a.types with
      | [t] =>
        (scalarTypeName t && a.const.isNone && a.format ≠ "date-time" && a.pattern.isNone) ||
        t = "array" || (t = "object" && (!props.isEmpty || addlIsSchema addl))
      | _ => false))

def refOK (defs : Defs) (name : String) : Bool :=
  match lookupDef defs name with
  | some t => targetOK t
  | none => false

/-- a reference to a definition that is read as an array or a map -/
def refToColl (defs : Defs) (s : JS) : Bool :=
  match s.attrs.ref with
  | some name => (match lookupDef defs name with | some t => jsIsColl t | none => false)
  | none => false

/-- keys strictly increasing (both comparisons spelled out: no order lemma on `String` is needed) -/
def sortedKeys : List (String × JS) → Bool
  | [] => true
  | (k, _) :: rest => (rest.all fun p => decide (k < p.1) && !decide (p.1 < k)) && sortedKeys rest

/-- exactly two branches, exactly one of them `{type: null}` -/
def pairShape : List JS → Bool
  | [x, y] => isNullS x != isNullS y
  | _ => false

def itemsIsNone : JItems → Bool | .none => true | _ => false

/-- `additionalProperties: false` -/
def addlIsFalse : JAddl → Bool | .bool false => true | _ => false

mutual
/-- `pair = true`: property / item / map-value / definition position (`T | null` allowed) -/
def frag (defs : Defs) : Bool → JS → Bool
  | pair, .mk a oneOf anyOf allOf props addl items items2020 =>
    a.always.isNone &&
    (match a.ref with
     | some name => refOK defs name
     | none =>
       if a.hasOneOf then pair && pairShape oneOf && fragBranches defs oneOf
       else if a.hasAnyOf then pair && pairShape anyOf && fragBranches defs anyOf
       else if a.hasAllOf then false
       else
       match a.enum with
       | some vs => enumValsOK vs
       | none =>
         match a.types with
         | [] => jsIsAny (.mk a oneOf anyOf allOf props addl items items2020) || untypedConstOK a addl
         | [t] =>
           if t = "boolean" ∨ t = "number" ∨ t = "integer" then true
           else if t = "string" then a.pattern.isNone
           else if t = "array" then fragItem defs items && fragItem defs items2020 && (itemsIsNone items || itemsIsNone items2020)
           else if t = "object" then
             (if props.isEmpty then fragAddl defs addl
              else addlIsFalse addl && sortedKeys props && fragProps defs a.required props)
           else false
         | [t1, t2] => pair && ((t1 = "null" && scalarTypeName t2) || (t2 = "null" && scalarTypeName t1))
         | _ => false)
def fragBranches (defs : Defs) : List JS → Bool
  | [] => true
  | b :: bs => (isNullS b || (frag defs false b && !refToColl defs b)) && fragBranches defs bs
def fragItem (defs : Defs) : JItems → Bool
  | .none => true
  | .one s => frag defs true s
  | .tuple _ => false
def fragAddl (defs : Defs) : JAddl → Bool
  | .schema s => frag defs true s
  | _ => true
def fragProps (defs : Defs) (required : List String) : List (String × JS) → Bool
  | [] => true
  | (k, s) :: ps => frag defs true s && (required.contains k || !refToColl defs s) && fragProps defs required ps
end

/-- the fragment: every definition of the table is in it, and the root definition is one a reference may point to -/
def FragJS (defs : Defs) (root : JS) : Bool :=
  (defs.all fun d => frag defs true d.2) &&
  (match root with
   | .mk a [] [] [] [] .none .none .none =>
     (match a.ref with
      | some name => refOK defs name && a.always.isNone && a.types.isEmpty && a.enum.isNone && a.const.isNone
      | none => false)
   | _ => false)

end Cog.Front.JsonSchema
