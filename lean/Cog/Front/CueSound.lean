/-
  C01 (b), CUE — soundness of the front-end on `FragCue`: a document that is strictly valid against the view
  (`cueValid true`) belongs to `srcDen` of every IR that `agree`s with the views (in particular the model's own output
  when `FragCue` holds).  Core Lean only.
-/
import Cog.Front.CueValid
import Cog.Sem.WidenMono
namespace Cog.Front.Cue
open Cog.IR Cog.Sem Cog.Sem.Src Cog.Passes

theorem ite_t {α} (b : Bool) (x y : α) (h : b = true) : (if b = true then x else y) = x := by simp [h]
theorem ite_f {α} (b : Bool) (x y : α) (h : b = false) : (if b = true then x else y) = y := by simp [h]

theorem setNullable_self (t : Ty) : setNullable t.getMeta.nullable t = t := by
  cases t <;> rfl

theorem lookupEntry_mem : ∀ {top : Top} {path name : String} {v : CV},
    lookupEntry top path = some (name, v) → (path, name, v) ∈ top
  | [], _, _, _, h => by simp [lookupEntry] at h
  | (p, n, w) :: rest, path, name, v, h => by
    simp only [lookupEntry] at h
    by_cases hp : p = path
    · rw [if_pos hp] at h
      injection h with h
      injection h with h1 h2
      subst hp; subst h1; subst h2
      exact List.mem_cons_self
    · rw [if_neg hp] at h
      exact List.mem_cons_of_mem _ (lookupEntry_mem h)

/-- what `agree` says about the target of a reference -/
theorem agree_entry {pkg : String} {top : Top} {S : Schemas} (hag : agree pkg top S = true)
    {path name : String} {v : CV} (h : lookupEntry top path = some (name, v)) :
    aliasClass v = true ∧ ∃ o, Schemas.locateObject S pkg name = some o ∧ aliasShape (shape pkg top shapeFuel) v o.ty = true := by
  have hm := lookupEntry_mem h
  unfold agree at hag
  rw [List.all_eq_true] at hag
  have he := hag _ hm
  simp only [Bool.and_eq_true] at he
  refine ⟨he.1, ?_⟩
  cases ho : Schemas.locateObject S pkg name with
  | none => rw [ho] at he; exact absurd he.2 (by simp)
  | some o => rw [ho] at he; exact ⟨o, rfl, he.2⟩

theorem enumMatch_has : ∀ (vals : List EnumVal) (args : List (Bool × CV)) (s : String),
    enumMatch vals args = true → (args.any fun a => strOf a.2.info.scalar == some s) = true →
    enumHas vals (.str s) = true
  | [], [], _, _, h => by simp at h
  | [], _ :: _, _, h, _ => by simp [enumMatch] at h
  | _ :: _, [], _, h, _ => by simp [enumMatch] at h
  | e :: es, a :: as, s, h, ha => by
    simp only [enumMatch, Bool.and_eq_true] at h
    obtain ⟨⟨hk, hm⟩, hrest⟩ := h
    simp only [List.any_cons, Bool.or_eq_true] at ha
    simp only [enumHas, List.any_cons, Bool.or_eq_true]
    cases ha with
    | inl h1 =>
      left
      cases hev : e.value <;> cases hso : strOf a.2.info.scalar <;> simp only [hev, hso] at hm <;> try cases hm
      rw [hso] at h1
      simp only [beq_iff_eq, Option.some.injEq] at h1 hm
      subst h1; subst hm
      simp [valMatches]
    | inr h2 =>
      right
      have := enumMatch_has es as s hrest h2
      simpa [enumHas] using this

theorem enumMatch_head : ∀ (vals : List EnumVal) (args : List (Bool × CV)),
    enumMatch vals args = true → args ≠ [] → ∃ v0 vs, vals = v0 :: vs ∧ v0.kind = "string"
  | [], [], _, h => absurd rfl h
  | [], _ :: _, h, _ => by simp [enumMatch] at h
  | _ :: _, [], _, h => absurd rfl h
  | e :: es, a :: as, h, _ => by
    simp only [enumMatch, Bool.and_eq_true, beq_iff_eq] at h
    exact ⟨e, es, rfl, h.1.1⟩

/-! ### one-step equations of `xden` -/

section steps
variable (S : Schemas) (n : Nat)

theorem xs_scalar (kind : String) (v : Val) (cs : List Constraint) (m : Meta) (j : Json) :
    xden true (n + 1) S (.scalar kind v cs m) j =
      (if kind = "bytes" then false
       else if kind = "any" then anyExact j && wfDeep j
       else if hasHint m "string_format_datetime" then
         (m.nullable && j.isNull) || (match j with | .str _ => kind = "string" | _ => false)
       else (m.nullable && j.isNull) || (denScalar kind j && constOK v j)) := by
  simp only [xden]
  cases j <;> rfl

theorem xs_array (e : Ty) (m : Meta) (j : Json) :
    xden true (n + 1) S (.array e m) j =
      (!isByteElem e && match j with
        | .null => m.nullable
        | .arr xs => xs.all (xden true n S e)
        | _ => false) := by
  simp only [xden]
  cases j <;> rfl

theorem xs_map (a : Val) (b : List Constraint) (c : Meta) (v : Ty) (m : Meta) (j : Json) :
    xden true (n + 1) S (.map (.scalar "string" a b c) v m) j =
      (match j with
        | .null => m.nullable
        | .obj kvs => keysNodup kvs && kvs.all (fun kv => xden true n S v kv.2)
        | _ => false) := by
  simp only [xden]
  cases j <;> rfl

theorem xs_struct (fs : List Field) (g : List Ty) (m : Meta) (j : Json) :
    xden true (n + 1) S (.struct fs g none m) j =
      ((m.nullable && j.isNull) || xStructBody true (xden true n S) fs j) := by
  simp only [xden]

theorem xs_enum (v0 : EnumVal) (vs : List EnumVal) (m : Meta) (j : Json) :
    xden true (n + 1) S (.enum (v0 :: vs) m) j =
      ((m.nullable && j.isNull) || (denScalar v0.kind j && enumHas (v0 :: vs) j)) := by
  simp only [xden]

theorem xs_nullpair (t0 t1 : Ty) (i : DisjInfo) (m : Meta) (j : Json) (h0 : isNull t0 = true) (h1 : isNull t1 = false) :
    xden true (n + 1) S (.disj [t0, t1] i m) j = xden true n S (setNullable true t1) j := by
  simp [xden, hasNullType, nonNullTypes, h0, h1]

theorem xs_ref_struct (pkg name : String) (m : Meta) (j : Json) (o : Obj) (fs : List Field) (g : List Ty) (sm : Meta)
    (ho : Schemas.locateObject S pkg name = some o) (hty : o.ty = .struct fs g none sm) :
    xden true (n + 1) S (.ref pkg name m) j = ((m.nullable && j.isNull) || xStructBody true (xden true n S) fs j) := by
  simp only [xden, ho, hty]

theorem xs_ref_enum (pkg name : String) (m : Meta) (j : Json) (o : Obj) (v0 : EnumVal) (vs : List EnumVal) (em : Meta)
    (ho : Schemas.locateObject S pkg name = some o) (hty : o.ty = .enum (v0 :: vs) em) :
    xden true (n + 1) S (.ref pkg name m) j = ((m.nullable && j.isNull) || (denScalar v0.kind j && enumHas (v0 :: vs) j)) := by
  simp only [xden, ho, hty]

theorem xs_ref_scalar (pkg name : String) (m : Meta) (j : Json) (o : Obj) (kind : String) (cs : List Constraint) (om : Meta)
    (ho : Schemas.locateObject S pkg name = some o) (hty : o.ty = .scalar kind .nil cs om) :
    xden true (n + 1) S (.ref pkg name m) j =
      (true && kind != "bytes" && kind != "any" && !hasHint om "string_format_datetime" && ((m.nullable && j.isNull) || denScalar kind j)) := by
  simp only [xden, ho, hty]

end steps

/-! ### structs -/

theorem fieldsShape_names (sh : CV → Ty → Bool) : ∀ (vf : List (String × Bool × Bool × CV)) (fs : List Field),
    fieldsShape sh vf fs = true → fs.map (·.name) = labels vf
  | [], [], _ => rfl
  | [], _ :: _, h => by simp [fieldsShape] at h
  | _ :: _, [], h => by simp [fieldsShape] at h
  | (l, _, opt, fv) :: rest, f :: fs, h => by
    simp only [fieldsShape, Bool.and_eq_true, beq_iff_eq] at h
    simp only [List.map_cons, labels]
    rw [h.1.1.1]
    congr 1
    exact fieldsShape_names sh rest fs h.2

section structs
variable (S : Schemas) (n : Nat) (sh : CV → Ty → Bool) (w : CV → Json → Bool) (fill : CV → Bool)
variable (IH : ∀ c Tc dc, sh c Tc = true → w c dc = true → xden true n S Tc dc = true)
variable (B2 : ∀ c Tc, sh c Tc = true → xden true n S (setNullable true Tc) .null = true)
include IH B2

theorem fields_core (members : List (String × Json)) : ∀ (vf : List (String × Bool × Bool × CV)) (fs : List Field),
    fieldsShape sh vf fs = true →
    (vf.all fun f =>
      match Json.lookup f.1 members with
      | some val => w f.2.2.2 val && (!true || !f.2.2.1 || !isEmptyColl val)
      | none => f.2.2.1 || (!true && fill f.2.2.2)) = true →
    xFieldsWith true (xden true n S) fs members = true
  | [], [], _, _ => rfl
  | [], _ :: _, h, _ => by simp [fieldsShape] at h
  | _ :: _, [], h, _ => by simp [fieldsShape] at h
  | (l, isd, opt, fv) :: rest, f :: fs, h, hv => by
    simp only [fieldsShape, Bool.and_eq_true, beq_iff_eq] at h
    obtain ⟨⟨⟨hname, hreq⟩, hsh⟩, hrest⟩ := h
    simp only [List.all_cons, Bool.and_eq_true] at hv
    obtain ⟨hhead, htail⟩ := hv
    have hrec := fields_core members rest fs hrest htail
    unfold xFieldsWith at hrec ⊢
    simp only [List.all_cons, Bool.and_eq_true]
    refine ⟨?_, hrec⟩
    simp only [Bool.true_or, Bool.true_and]
    rw [hname]
    cases hl : Json.lookup l members with
    | some val =>
      simp only [hl] at hhead
      simp only [Bool.and_eq_true] at hhead
      have hx := IH fv f.ty val hsh hhead.1
      simp only [hx, Bool.true_and]
      unfold xFieldValueOK
      rw [hreq]
      cases opt with
      | false => simp
      | true =>
        have h2 := hhead.2
        simp only [Bool.not_true, Bool.false_or] at h2
        simp [h2]
    | none =>
      simp only [hl] at hhead
      simp only [Bool.not_true, Bool.false_and, Bool.or_false] at hhead
      rw [hreq, hhead]
      simp only [Bool.not_true, Bool.not_false, Bool.true_and, if_true]
      exact ⟨trivial, B2 fv f.ty hsh⟩

theorem struct_core (vf : List (String × Bool × Bool × CV)) (fs : List Field)
    (hsh : fieldsShape sh vf fs = true) (hnd : namesNodup (labels vf) = true)
    (d : Json) (hv : validStruct true fill w vf d = true) : xStructBody true (xden true n S) fs d = true := by
  cases d with
  | obj members =>
    unfold validStruct at hv
    simp only [Bool.and_eq_true] at hv
    unfold xStructBody
    simp only [Bool.and_eq_true]
    rw [fieldsShape_names sh vf fs hsh]
    exact ⟨⟨⟨hv.1.1, hnd⟩, hv.1.2⟩, fields_core S n sh w fill IH B2 members vf fs hsh hv.2⟩
  | null => simp [validStruct] at hv
  | bool _ => simp [validStruct] at hv
  | num _ => simp [validStruct] at hv
  | str _ => simp [validStruct] at hv
  | arr _ => simp [validStruct] at hv

end structs

/-! ### the classes a reference may point to -/

def AliasCore (S : Schemas) (n : Nat) (T : Ty) (d : Json) : Prop :=
  (∃ fs g sm, T = .struct fs g none sm ∧ xStructBody true (xden true n S) fs d = true) ∨
  (∃ v0 vs em, T = .enum (v0 :: vs) em ∧ denScalar v0.kind d = true ∧ enumHas (v0 :: vs) d = true) ∨
  (∃ k cs om, T = .scalar k .nil cs om ∧ (k != "bytes") = true ∧ (k != "any") = true ∧
      hasHint om "string_format_datetime" = false ∧ denScalar k d = true)

theorem noHints_hasHint (m : Meta) (h : noHints m = true) (k : String) : hasHint m k = false := by
  unfold noHints at h
  unfold hasHint
  cases hh : m.hints with
  | nil => rfl
  | cons a b => rw [hh] at h; cases h

theorem isEnumV_args (v : CV) (h : isEnumV v = true) : v.args ≠ [] := by
  unfold isEnumV at h
  simp only [Bool.and_eq_true, decide_eq_true_eq, beq_iff_eq] at h
  intro hnil
  have hl := h.1.2
  have hn := h.1.1.1.1.2
  rw [hnil] at hl
  simp only [List.length_nil] at hl
  omega

section alias
variable (S : Schemas) (n : Nat) (sh : CV → Ty → Bool) (w : CV → Json → Bool) (fl deep : Bool) (fill : CV → Bool)
variable (IH : ∀ c Tc dc, sh c Tc = true → w c dc = true → xden true n S Tc dc = true)
variable (B2 : deep = true → ∀ c Tc, sh c Tc = true → xden true n S (setNullable true Tc) .null = true)
include IH B2

theorem alias_core (v : CV) (T : Ty) (d : Json) (hsh : aliasShape sh v T = true)
    (hv : aliasValid true fl fill deep w v d = true) : AliasCore S n T d := by
  unfold aliasShape at hsh
  unfold aliasValid at hv
  cases hE : isEnumV v with
  | true =>
    rw [ite_t _ _ _ hE] at hsh hv
    right; left
    cases T with
    | enum vals em =>
      simp only at hsh
      unfold enumValid at hv
      cases d with
      | str s =>
        simp only at hv
        obtain ⟨v0, vs, hvals, hk⟩ := enumMatch_head vals v.args hsh (isEnumV_args v hE)
        subst hvals
        refine ⟨v0, vs, em, rfl, ?_, enumMatch_has _ _ s hsh hv⟩
        rw [hk]; rfl
      | _ => simp at hv
    | _ => simp at hsh
  | false =>
    rw [ite_f _ _ _ hE] at hsh hv
    cases hP : isPlainScalarV v with
    | true =>
      rw [ite_t _ _ _ hP] at hsh hv
      right; right
      cases T with
      | scalar k val cs m =>
        cases val with
        | nil =>
          simp only [Bool.and_eq_true, beq_iff_eq] at hsh
          obtain ⟨⟨⟨hk, hnh⟩, hb⟩, ha⟩ := hsh
          unfold validScalar at hv
          simp only [Bool.not_true, Bool.false_or, Bool.and_eq_true] at hv
          refine ⟨k, cs, m, rfl, hb, ha, noHints_hasHint m hnh _, ?_⟩
          rw [hk]; exact hv.1
        | _ => simp at hsh
      | _ => simp at hsh
    | false =>
      rw [ite_f _ _ _ hP] at hsh hv
      cases hS : isStructV v with
      | true =>
        rw [ite_t _ _ _ hS] at hsh hv
        left
        simp only [Bool.and_eq_true] at hv
        have hnd : namesNodup (labels v.fields) = true := by
          unfold isStructV at hS
          simp only [Bool.and_eq_true] at hS
          exact hS.2
        cases T with
        | struct fs g gi sm =>
          cases gi with
          | none =>
            simp only at hsh
            exact ⟨fs, g, sm, rfl, struct_core S n sh w fill IH (B2 hv.1) v.fields fs hsh hnd d hv.2⟩
          | some _ => simp at hsh
        | _ => simp at hsh
      | false =>
        rw [ite_f _ _ _ hS] at hv
        cases hv

end alias

theorem alias_direct (S : Schemas) (n : Nat) (T : Ty) (d : Json) (h : AliasCore S n T d) (nl : Bool) :
    xden true (n + 1) S (setNullable nl T) d = true := by
  rcases h with ⟨fs, g, sm, rfl, hb⟩ | ⟨v0, vs, em, rfl, hk, he⟩ | ⟨k, cs, om, rfl, hb, ha, hh, hd⟩
  · show xden true (n + 1) S (.struct fs g none { sm with nullable := nl }) d = true
    rw [xs_struct, hb]; simp
  · show xden true (n + 1) S (.enum (v0 :: vs) { em with nullable := nl }) d = true
    rw [xs_enum, hk, he]; simp
  · show xden true (n + 1) S (.scalar k .nil cs { om with nullable := nl }) d = true
    rw [xs_scalar]
    simp only [bne_iff_ne, ne_eq] at hb ha
    rw [if_neg hb, if_neg ha]
    have hh' : hasHint { om with nullable := nl } "string_format_datetime" = false := hh
    rw [hh', hd]
    simp [constOK]

theorem alias_ref (S : Schemas) (n : Nat) (pkg name : String) (o : Obj) (d : Json)
    (ho : Schemas.locateObject S pkg name = some o) (h : AliasCore S n o.ty d) (m : Meta) :
    xden true (n + 1) S (.ref pkg name m) d = true := by
  rcases h with ⟨fs, g, sm, hty, hb⟩ | ⟨v0, vs, em, hty, hk, he⟩ | ⟨k, cs, om, hty, hb, ha, hh, hd⟩
  · rw [xs_ref_struct S n pkg name m d o fs g sm ho hty, hb]; simp
  · rw [xs_ref_enum S n pkg name m d o v0 vs em ho hty, hk, he]; simp
  · rw [xs_ref_scalar S n pkg name m d o k cs om ho hty, hb, ha, hh, hd]; simp

def AliasShapeOnly (T : Ty) : Prop :=
  (∃ fs g sm, T = .struct fs g none sm) ∨ (∃ v0 vs em, T = .enum (v0 :: vs) em) ∨
  (∃ k cs om, T = .scalar k .nil cs om ∧ (k != "bytes") = true ∧ (k != "any") = true ∧ hasHint om "string_format_datetime" = false)

theorem alias_shape_only (sh : CV → Ty → Bool) (v : CV) (T : Ty) (hsh : aliasShape sh v T = true) : AliasShapeOnly T := by
  unfold aliasShape at hsh
  cases hE : isEnumV v with
  | true =>
    rw [ite_t _ _ _ hE] at hsh
    right; left
    cases T with
    | enum vals em =>
      simp only at hsh
      obtain ⟨v0, vs, hvals, _⟩ := enumMatch_head vals v.args hsh (isEnumV_args v hE)
      exact ⟨v0, vs, em, by rw [hvals]⟩
    | _ => simp at hsh
  | false =>
    rw [ite_f _ _ _ hE] at hsh
    cases hP : isPlainScalarV v with
    | true =>
      rw [ite_t _ _ _ hP] at hsh
      right; right
      cases T with
      | scalar k val cs m =>
        cases val with
        | nil =>
          simp only [Bool.and_eq_true, beq_iff_eq] at hsh
          obtain ⟨⟨⟨_, hnh⟩, hb⟩, ha⟩ := hsh
          exact ⟨k, cs, m, rfl, hb, ha, noHints_hasHint m hnh _⟩
        | _ => simp at hsh
      | _ => simp at hsh
    | false =>
      rw [ite_f _ _ _ hP] at hsh
      cases hS : isStructV v with
      | true =>
        rw [ite_t _ _ _ hS] at hsh
        left
        cases T with
        | struct fs g gi sm =>
          cases gi with
          | none => exact ⟨fs, g, sm, rfl⟩
          | some _ => simp at hsh
        | _ => simp at hsh
      | false =>
        rw [ite_f _ _ _ hS] at hsh
        cases hsh

theorem alias_null_direct (S : Schemas) (n : Nat) (T : Ty) (h : AliasShapeOnly T) :
    xden true (n + 1) S (setNullable true T) .null = true := by
  rcases h with ⟨fs, g, sm, rfl⟩ | ⟨v0, vs, em, rfl⟩ | ⟨k, cs, om, rfl, hb, ha, hh⟩
  · show xden true (n + 1) S (.struct fs g none { sm with nullable := true }) .null = true
    rw [xs_struct]; rfl
  · show xden true (n + 1) S (.enum (v0 :: vs) { em with nullable := true }) .null = true
    rw [xs_enum]; rfl
  · show xden true (n + 1) S (.scalar k .nil cs { om with nullable := true }) .null = true
    rw [xs_scalar]
    simp only [bne_iff_ne, ne_eq] at hb ha
    rw [if_neg hb, if_neg ha]
    have hh' : hasHint { om with nullable := true } "string_format_datetime" = false := hh
    rw [hh']
    rfl

theorem alias_null_ref (S : Schemas) (n : Nat) (pkg name : String) (o : Obj)
    (ho : Schemas.locateObject S pkg name = some o) (h : AliasShapeOnly o.ty) (m : Meta) (hm : m.nullable = true) :
    xden true (n + 1) S (.ref pkg name m) .null = true := by
  rcases h with ⟨fs, g, sm, hty⟩ | ⟨v0, vs, em, hty⟩ | ⟨k, cs, om, hty, hb, ha, hh⟩
  · rw [xs_ref_struct S n pkg name m .null o fs g sm ho hty, hm]; rfl
  · rw [xs_ref_enum S n pkg name m .null o v0 vs em ho hty, hm]; rfl
  · rw [xs_ref_scalar S n pkg name m .null o k cs om ho hty, hb, ha, hh, hm]; rfl

/-! ### `null` under `null | X` and at an absent optional member -/

theorem constKind_ok (c : Val) (h : constOKV c = true) : constKind c ≠ "bytes" ∧ constKind c ≠ "any" := by
  cases c <;> simp [constOKV] at h <;> simp [constKind]

theorem isConstV_ok (v : CV) (h : isConstV v = true) : constOKV (constVal v) = true := by
  unfold isConstV at h
  simp only [Bool.and_eq_true] at h
  exact h.1.2

theorem body_null1 (S : Schemas) (n : Nat) (sh : CV → Ty → Bool) (v : CV) (T : Ty)
    (hsh : shapeBody sh v T = true) (hnp : isNullPair v = false) :
    xden true (n + 1) S (setNullable true T) .null = true := by
  unfold shapeBody at hsh
  rw [ite_f _ _ _ hnp] at hsh
  cases hC : isConstV v with
  | true =>
    rw [ite_t _ _ _ hC] at hsh
    cases T with
    | scalar k val cs m =>
      simp only [Bool.and_eq_true, beq_iff_eq] at hsh
      obtain ⟨⟨hk, _⟩, hnh⟩ := hsh
      obtain ⟨h1, h2⟩ := constKind_ok _ (isConstV_ok v hC)
      show xden true (n + 1) S (.scalar k val cs { m with nullable := true }) .null = true
      rw [xs_scalar, hk, if_neg h1, if_neg h2]
      have hh' : hasHint { m with nullable := true } "string_format_datetime" = false := noHints_hasHint m hnh _
      rw [hh']; rfl
    | _ => simp at hsh
  | false =>
    rw [ite_f _ _ _ hC] at hsh
    cases hA : isAnyV v with
    | true =>
      rw [ite_t _ _ _ hA] at hsh
      cases T with
      | scalar k val cs m =>
        simp only [beq_iff_eq] at hsh
        subst hsh
        show xden true (n + 1) S (.scalar "any" val cs { m with nullable := true }) .null = true
        rw [xs_scalar]; rfl
      | _ => simp at hsh
    | false =>
      rw [ite_f _ _ _ hA] at hsh
      cases hL : isListV v with
      | true =>
        rw [ite_t _ _ _ hL] at hsh
        cases hel : v.elem with
        | nil => simp [hel] at hsh
        | cons e rest =>
          cases rest with
          | cons _ _ => simp [hel] at hsh
          | nil =>
            cases T with
            | array te m =>
              simp only [hel, Bool.and_eq_true] at hsh
              show xden true (n + 1) S (.array te { m with nullable := true }) .null = true
              rw [xs_array, hsh.2]; rfl
            | _ => simp [hel] at hsh
      | false =>
        rw [ite_f _ _ _ hL] at hsh
        cases hM : isMapV v with
        | true =>
          rw [ite_t _ _ _ hM] at hsh
          cases has : v.anystr with
          | nil => simp [has] at hsh
          | cons a rest =>
            cases rest with
            | cons _ _ => simp [has] at hsh
            | nil =>
              cases T with
              | map idx tv m =>
                cases idx with
                | scalar ik iv ic im =>
                  simp only [has, Bool.and_eq_true, beq_iff_eq] at hsh
                  obtain ⟨hik, _⟩ := hsh
                  subst hik
                  show xden true (n + 1) S (.map (.scalar "string" iv ic im) tv { m with nullable := true }) .null = true
                  rw [xs_map]
                | _ => simp [has] at hsh
              | _ => simp [has] at hsh
        | false =>
          rw [ite_f _ _ _ hM] at hsh
          exact alias_null_direct S n T (alias_shape_only sh v T hsh)

theorem nullPair_inner (v : CV) (h : isNullPair v = true) (a b : Bool × CV) (hargs : v.args = [a, b]) :
    isNullPair b.2 = false := by
  unfold isNullPair at h
  simp only [hargs, Bool.and_eq_true, Bool.or_eq_true, Bool.not_eq_true'] at h
  obtain ⟨_, _, hb⟩ := h
  unfold isNullPair
  cases hb with
  | inl h1 => simp [h1]
  | inr h2 => simp [h2]

/-! ### non-reference nodes -/

theorem const_den (c val : Val) (d : Json) (hc : constOKV c = true) (hs : valSame val c = true) (hm : valMatches c d = true) :
    denScalar (constKind c) d = true ∧ constOK val d = true := by
  cases c <;> simp [constOKV] at hc <;> cases val <;> simp [valSame] at hs <;> cases d <;> simp [valMatches] at hm
  · subst hs; subst hm; simp [constKind, denScalar, constOK, valMatches]
  · subst hs; subst hm; simp [constKind, constOK, valMatches, hc]
  · subst hs; simp [constKind, denScalar, constOK, valMatches, hm]
  · subst hs; subst hm; simp [constKind, denScalar, constOK, valMatches]

theorem isNull_eq (d : Json) (h : d.isNull = true) : d = .null := by
  cases d <;> simp [Json.isNull] at h <;> rfl

section body
variable (S : Schemas) (n : Nat) (sh : CV → Ty → Bool) (w : CV → Json → Bool) (fl deep : Bool) (fill : CV → Bool)
variable (IH : ∀ c Tc dc, sh c Tc = true → w c dc = true → ∀ nl, xden true n S (setNullable nl Tc) dc = true)
variable (B1 : deep = true → ∀ c Tc, sh c Tc = true → isNullPair c = false → xden true n S (setNullable true Tc) .null = true)
variable (B2 : deep = true → ∀ c Tc, sh c Tc = true → xden true n S (setNullable true Tc) .null = true)
include IH B1 B2

theorem body_sound (v : CV) (T : Ty) (d : Json) (hsh : shapeBody sh v T = true)
    (hv : cueBody true fl fill deep w v d = true) (nl : Bool) : xden true (n + 1) S (setNullable nl T) d = true := by
  have IH0 : ∀ c Tc dc, sh c Tc = true → w c dc = true → xden true n S Tc dc = true := by
    intro c Tc dc h1 h2
    have := IH c Tc dc h1 h2 Tc.getMeta.nullable
    rwa [setNullable_self] at this
  unfold shapeBody at hsh
  unfold cueBody at hv
  cases hnp : isNullPair v with
  | true =>
    rw [ite_t _ _ _ hnp] at hsh hv
    cases hargs : v.args with
    | nil => simp [hargs] at hsh
    | cons a r1 =>
      cases r1 with
      | nil => simp [hargs] at hsh
      | cons b r2 =>
        cases r2 with
        | cons _ _ => simp [hargs] at hsh
        | nil =>
          cases T with
          | disj bs di m =>
            cases bs with
            | nil => simp [hargs] at hsh
            | cons t0 r1 =>
              cases r1 with
              | nil => simp [hargs] at hsh
              | cons t1 r2 =>
                cases r2 with
                | cons _ _ => simp [hargs] at hsh
                | nil =>
                  simp only [hargs, Bool.and_eq_true, Bool.not_eq_true'] at hsh
                  obtain ⟨⟨h0, h1⟩, hb⟩ := hsh
                  simp only [hargs, Bool.and_eq_true, Bool.or_eq_true] at hv
                  obtain ⟨hdeep, hd⟩ := hv
                  show xden true (n + 1) S (.disj [t0, t1] di { m with nullable := nl }) d = true
                  rw [xs_nullpair S n t0 t1 di _ d h0 h1]
                  cases hd with
                  | inl hnull =>
                    rw [isNull_eq d hnull]
                    exact B1 hdeep b.2 t1 hb (nullPair_inner v hnp a b hargs)
                  | inr hw => exact IH b.2 t1 d hb hw true
          | _ => simp [hargs] at hsh
  | false =>
    rw [ite_f _ _ _ hnp] at hsh hv
    cases hC : isConstV v with
    | true =>
      rw [ite_t _ _ _ hC] at hsh hv
      cases T with
      | scalar k val cs m =>
        simp only [Bool.and_eq_true, beq_iff_eq] at hsh
        obtain ⟨⟨hk, hvs⟩, hnh⟩ := hsh
        obtain ⟨h1, h2⟩ := constKind_ok _ (isConstV_ok v hC)
        obtain ⟨hd1, hd2⟩ := const_den _ val d (isConstV_ok v hC) hvs hv
        show xden true (n + 1) S (.scalar k val cs { m with nullable := nl }) d = true
        rw [xs_scalar, hk, if_neg h1, if_neg h2]
        have hh' : hasHint { m with nullable := nl } "string_format_datetime" = false := noHints_hasHint m hnh _
        rw [hh', hd1, hd2]; simp
      | _ => simp at hsh
    | false =>
      rw [ite_f _ _ _ hC] at hsh hv
      cases hA : isAnyV v with
      | true =>
        rw [ite_t _ _ _ hA] at hsh hv
        cases T with
        | scalar k val cs m =>
          simp only [beq_iff_eq] at hsh
          subst hsh
          simp only [Bool.not_true, Bool.false_or] at hv
          show xden true (n + 1) S (.scalar "any" val cs { m with nullable := nl }) d = true
          rw [xs_scalar, if_neg (by decide), if_pos rfl]; exact hv
        | _ => simp at hsh
      | false =>
        rw [ite_f _ _ _ hA] at hsh hv
        cases hL : isListV v with
        | true =>
          rw [ite_t _ _ _ hL] at hsh hv
          cases hel : v.elem with
          | nil => simp [hel] at hsh
          | cons e rest =>
            cases rest with
            | cons _ _ => simp [hel] at hsh
            | nil =>
              cases T with
              | array te m =>
                simp only [hel, Bool.and_eq_true, Bool.not_eq_true'] at hsh
                cases d with
                | arr xs =>
                  simp only [hel] at hv
                  show xden true (n + 1) S (.array te { m with nullable := nl }) (.arr xs) = true
                  rw [xs_array, hsh.2]
                  simp only [Bool.not_false, Bool.true_and]
                  rw [List.all_eq_true] at hv ⊢
                  intro x hx
                  exact IH0 e te x hsh.1 (hv x hx)
                | _ => simp [hel] at hv
              | _ => simp [hel] at hsh
        | false =>
          rw [ite_f _ _ _ hL] at hsh hv
          cases hM : isMapV v with
          | true =>
            rw [ite_t _ _ _ hM] at hsh hv
            cases has : v.anystr with
            | nil => simp [has] at hsh
            | cons a rest =>
              cases rest with
              | cons _ _ => simp [has] at hsh
              | nil =>
                cases T with
                | map idx tv m =>
                  cases idx with
                  | scalar ik iv ic im =>
                    simp only [has, Bool.and_eq_true, beq_iff_eq] at hsh
                    obtain ⟨hik, hsa⟩ := hsh
                    subst hik
                    cases d with
                    | obj kvs =>
                      simp only [has, Bool.and_eq_true] at hv
                      show xden true (n + 1) S (.map (.scalar "string" iv ic im) tv { m with nullable := nl }) (.obj kvs) = true
                      rw [xs_map]
                      simp only [Bool.and_eq_true]
                      refine ⟨hv.1, ?_⟩
                      have hall := hv.2
                      rw [List.all_eq_true] at hall ⊢
                      intro kv hkv
                      exact IH0 a tv kv.2 hsa (hall kv hkv)
                    | _ => simp [has] at hv
                  | _ => simp [has] at hsh
                | _ => simp [has] at hsh
          | false =>
            rw [ite_f _ _ _ hM] at hsh hv
            exact alias_direct S n T d (alias_core S n sh w fl deep fill IH0 B2 v T d hsh hv) nl

end body

section main
variable (pkg : String) (top : Top) (S : Schemas) (hag : agree pkg top S = true)
include hag

theorem shape_null1 (n k : Nat) (v : CV) (T : Ty) (hsh : shape pkg top (k + 1) v T = true) (hnp : isNullPair v = false) :
    xden true (n + 1) S (setNullable true T) .null = true := by
  simp only [shape] at hsh
  cases hT : isTimeRef v with
  | true =>
    rw [ite_t _ _ _ hT] at hsh
    cases T with
    | scalar kd val cs m =>
      simp only [Bool.and_eq_true, beq_iff_eq] at hsh
      obtain ⟨hk, hh⟩ := hsh
      subst hk
      show xden true (n + 1) S (.scalar "string" val cs { m with nullable := true }) .null = true
      have hh' : hasHint { m with nullable := true } "string_format_datetime" = true := hh
      rw [xs_scalar, if_neg (by decide), if_neg (by decide), hh']; rfl
    | _ => simp at hsh
  | false =>
    rw [ite_f _ _ _ hT] at hsh
    cases hR : isLocalRef pkg v with
    | true =>
      rw [ite_t _ _ _ hR] at hsh
      cases T with
      | ref p nm m =>
        simp only [Bool.and_eq_true, beq_iff_eq] at hsh
        obtain ⟨⟨hp, hn⟩, hl⟩ := hsh
        cases hle : lookupEntry top v.info.refPath with
        | none => simp [hle] at hl
        | some e =>
          obtain ⟨name, target⟩ := e
          simp only [hle, Bool.and_eq_true, beq_iff_eq] at hl
          obtain ⟨hname, _⟩ := hl
          obtain ⟨_, o, ho, hso⟩ := agree_entry hag hle
          subst hp; subst hn
          rw [hname] at ho
          exact alias_null_ref S n _ _ o ho (alias_shape_only _ _ _ hso) { m with nullable := true } rfl
      | _ => simp at hsh
    | false =>
      rw [ite_f _ _ _ hR] at hsh
      exact body_null1 S n _ v T hsh hnp

theorem shape_null2 (n k : Nat) (v : CV) (T : Ty) (hsh : shape pkg top k v T = true) :
    xden true (n + 2) S (setNullable true T) .null = true := by
  cases k with
  | zero => simp [shape] at hsh
  | succ k =>
  cases hnp : isNullPair v with
  | false => exact shape_null1 pkg top S hag (n + 1) k v T hsh hnp
  | true =>
    have hsh0 := hsh
    simp only [shape] at hsh
    cases hT : isTimeRef v with
    | true =>
      -- a time reference is not an `or` node: handled by the first lemma's own branch
      unfold isNullPair plainNode at hnp
      unfold isTimeRef at hT
      simp only [Bool.and_eq_true, beq_iff_eq, bne_iff_ne, ne_eq] at hnp hT
      exact absurd hnp.1.1.1.1.1.1.1.1 hT.1.1.1.1
    | false =>
      rw [ite_f _ _ _ hT] at hsh
      cases hR : isLocalRef pkg v with
      | true =>
        unfold isNullPair plainNode at hnp
        unfold isLocalRef at hR
        simp only [Bool.and_eq_true, beq_iff_eq, bne_iff_ne, ne_eq] at hnp hR
        exact absurd hnp.1.1.1.1.1.1.1.1 hR.1.1.1.1
      | false =>
        rw [ite_f _ _ _ hR] at hsh
        unfold shapeBody at hsh
        rw [ite_t _ _ _ hnp] at hsh
        cases hargs : v.args with
        | nil => simp [hargs] at hsh
        | cons a r1 =>
          cases r1 with
          | nil => simp [hargs] at hsh
          | cons b r2 =>
            cases r2 with
            | cons _ _ => simp [hargs] at hsh
            | nil =>
              cases T with
              | disj bs di m =>
                cases bs with
                | nil => simp [hargs] at hsh
                | cons t0 r1 =>
                  cases r1 with
                  | nil => simp [hargs] at hsh
                  | cons t1 r2 =>
                    cases r2 with
                    | cons _ _ => simp [hargs] at hsh
                    | nil =>
                      simp only [hargs, Bool.and_eq_true, Bool.not_eq_true'] at hsh
                      obtain ⟨⟨h0, h1⟩, hb⟩ := hsh
                      show xden true (n + 2) S (.disj [t0, t1] di { m with nullable := true }) .null = true
                      rw [xs_nullpair S (n + 1) t0 t1 di _ .null h0 h1]
                      cases k with
                      | zero => simp [shape] at hb
                      | succ k' => exact shape_null1 pkg top S hag n k' b.2 t1 hb (nullPair_inner v hnp a b hargs)
              | _ => simp [hargs] at hsh

variable (fl : Bool) (fmt : String → Bool)

theorem ref_sound (n : Nat)
    (ih : ∀ k v T d, shape pkg top k v T = true → cueValid true fl fmt pkg top n v d = true →
      ∀ nl, xden true n S (setNullable nl T) d = true)
    (path name : String) (target : CV) (d : Json) (hle : lookupEntry top path = some (name, target))
    (hv : aliasValid true fl (fillable pkg top 16) (decide (2 ≤ n)) (cueValid true fl fmt pkg top n) target d = true) (m : Meta) :
    xden true (n + 1) S (.ref pkg name m) d = true := by
  obtain ⟨_, o, ho, hso⟩ := agree_entry hag hle
  have IH0 : ∀ c Tc dc, shape pkg top shapeFuel c Tc = true → cueValid true fl fmt pkg top n c dc = true →
      xden true n S Tc dc = true := by
    intro c Tc dc h1 h2
    have := ih shapeFuel c Tc dc h1 h2 Tc.getMeta.nullable
    rwa [setNullable_self] at this
  have B2 : decide (2 ≤ n) = true → ∀ c Tc, shape pkg top shapeFuel c Tc = true →
      xden true n S (setNullable true Tc) .null = true := by
    intro hd c Tc hc
    have h2 : 2 ≤ n := of_decide_eq_true hd
    obtain ⟨n', rfl⟩ : ∃ n', n = n' + 2 := ⟨n - 2, by omega⟩
    exact shape_null2 pkg top S hag n' shapeFuel c Tc hc
  exact alias_ref S n pkg name o d ho (alias_core S n _ _ fl _ _ IH0 B2 target o.ty d hso hv) m

theorem sound_core : ∀ (n k : Nat) (v : CV) (T : Ty) (d : Json), shape pkg top k v T = true →
    cueValid true fl fmt pkg top n v d = true → ∀ nl, xden true n S (setNullable nl T) d = true := by
  intro n
  induction n with
  | zero => intro k v T d _ hv; simp [cueValid] at hv
  | succ n ih =>
    intro k v T d hsh hv nl
    cases k with
    | zero => simp [shape] at hsh
    | succ k =>
    simp only [shape] at hsh
    simp only [cueValid] at hv
    cases hT : isTimeRef v with
    | true =>
      rw [ite_t _ _ _ hT] at hsh hv
      cases T with
      | scalar kd val cs m =>
        simp only [Bool.and_eq_true, beq_iff_eq] at hsh
        obtain ⟨hk, hh⟩ := hsh
        subst hk
        cases d with
        | str s =>
          show xden true (n + 1) S (.scalar "string" val cs { m with nullable := nl }) (.str s) = true
          have hh' : hasHint { m with nullable := nl } "string_format_datetime" = true := hh
          rw [xs_scalar, if_neg (by decide), if_neg (by decide), hh']; simp
        | _ => simp at hv
      | _ => simp at hsh
    | false =>
      rw [ite_f _ _ _ hT] at hsh hv
      cases hR : isLocalRef pkg v with
      | true =>
        rw [ite_t _ _ _ hR] at hsh hv
        cases T with
        | ref p nm m =>
          simp only [Bool.and_eq_true, beq_iff_eq] at hsh
          obtain ⟨⟨hp, hn⟩, hl⟩ := hsh
          cases hle : lookupEntry top v.info.refPath with
          | none => simp [hle] at hl
          | some e =>
            obtain ⟨name, target⟩ := e
            simp only [hle, Bool.and_eq_true, beq_iff_eq] at hl
            simp only [hle] at hv
            obtain ⟨hname, _⟩ := hl
            show xden true (n + 1) S (.ref p nm { m with nullable := nl }) d = true
            rw [hp, hn, ← hname]
            exact ref_sound pkg top S hag fl fmt n ih _ name target d hle hv { m with nullable := nl }
        | _ => simp at hsh
      | false =>
        rw [ite_f _ _ _ hR] at hsh hv
        refine body_sound S n (shape pkg top k) (cueValid true fl fmt pkg top n) fl (decide (2 ≤ n)) (fillable pkg top 16) (ih k) ?_ ?_ v T d hsh hv nl
        · intro hd c Tc hc hnp
          have h2 : 2 ≤ n := of_decide_eq_true hd
          obtain ⟨n', rfl⟩ : ∃ n', n = n' + 1 := ⟨n - 1, by omega⟩
          cases k with
          | zero => simp [shape] at hc
          | succ k' => exact shape_null1 pkg top S hag n' k' c Tc hc hnp
        · intro hd c Tc hc
          have h2 : 2 ≤ n := of_decide_eq_true hd
          obtain ⟨n', rfl⟩ : ∃ n', n = n' + 2 := ⟨n - 2, by omega⟩
          exact shape_null2 pkg top S hag n' k c Tc hc

/-- a strictly valid document of a definition belongs to `srcDen` of every IR that agrees with the views -/
theorem def_sound (n : Nat) (root : String) (d : Json)
    (hv : cueValidDef true fl fmt pkg top n root d = true) : srcDen (n + 1) S (.ref pkg root {}) d = true := by
  unfold cueValidDef at hv
  cases hle : lookupEntry top ("#" ++ root) with
  | none => simp [hle] at hv
  | some e =>
    obtain ⟨name, target⟩ := e
    simp only [hle, Bool.and_eq_true, beq_iff_eq] at hv
    obtain ⟨hname, hva⟩ := hv
    subst hname
    exact ref_sound pkg top S hag fl fmt n (sound_core pkg top S hag fl fmt n) _ name target d hle hva {}

end main

/-- PARSER SOUNDNESS of the CUE front-end model on the fragment -/
theorem parser_sound (fl : Bool) (fmt : String → Bool) (pkg : String) (top : Top) (root : String) (fuel : Nat) (S : Schemas)
    (hF : FragCue pkg fuel top = true) (hS : cueFront pkg fuel top = .ok S) (n : Nat) (d : Json)
    (hv : cueValidDef true fl fmt pkg top n root d = true) : srcDen (n + 1) S (.ref pkg root {}) d = true := by
  unfold FragCue at hF
  rw [hS] at hF
  exact def_sound pkg top S hF fl fmt n root d hv

end Cog.Front.Cue
