/-
  C01 (b), OpenAPI — PARSER SOUNDNESS on the fragment `FragOA`: a document that kin-openapi accepts (strict
  reading `oav true`) for a component belongs to `srcDen` of the IR the OpenAPI front-end builds.
  Same architecture as for JSON Schema (Cog/Front/JsonSchemaSound*.lean): one-level views, induction on the fuel
  of the validation semantics, references through `frontEnd_spec`.
-/
import Cog.Front.OpenApiView
import Cog.Front.JsonSchemaSoundMain
namespace Cog.Front.OpenApi
open Cog.IR Cog.Sem Cog.Sem.Src Cog.Passes
open Cog.Front.JsonSchema (m0 anyTy stringTy xden_array_step xden_map_step xden_struct_step xden_enum_step xden_any_step
  xden_scalar_plain xden_scalar_dt null_scalar xden_nullable wfDeep_obj wfDeep_member wfDeep_obj_mem wfDeep_arr_mem
  denScalar_string denScalar_bool denScalar_int64)

/-! ### shapes of the types a reference may point to -/

def TargetShape (T : Ty) (coll : Bool) : Prop :=
  (∃ fs, T = .struct fs [] none m0 ∧ coll = false) ∨
  (∃ e0 es em, T = .enum (e0 :: es) em ∧ em.nullable = false ∧ coll = false) ∨
  (∃ kind cs om, T = .scalar kind .nil cs om ∧ kind ≠ "bytes" ∧ kind ≠ "any" ∧
      hasHint om "string_format_datetime" = false ∧ om.nullable = false ∧ coll = false) ∨
  ((∃ e m, T = .array e m ∧ m.nullable = false ∧ isByteElem e = false) ∧ coll = true) ∨
  ((∃ v m, T = .map stringTy v m ∧ m.nullable = false) ∧ coll = true)

theorem lookupComp_mem {cs : Components} {name : String} {r : OSR} (h : lookupComp cs name = some r) : (name, r) ∈ cs := by
  induction cs with
  | nil => simp [lookupComp] at h
  | cons c rest ih =>
    obtain ⟨n, r0⟩ := c
    simp only [lookupComp] at h
    split at h
    · rename_i e; cases h; subst e; simp
    · exact List.mem_cons_of_mem _ (ih h)

theorem walkInteger_kind (a : OAttrs) : ∃ k, (k = "int32" ∨ k = "int64") ∧
    walkInteger a = .scalar k .nil (getConstraints a) { nullable := a.nullable, dflt := a.dflt } := by
  unfold walkInteger; split
  · exact ⟨"int32", Or.inl rfl, rfl⟩
  · exact ⟨"int64", Or.inr rfl, rfl⟩

theorem walkNumber_kind (a : OAttrs) : ∃ k, (k = "float64" ∨ k = "float32") ∧
    walkNumber a = .scalar k .nil (getConstraints a) { nullable := a.nullable, dflt := a.dflt } := by
  unfold walkNumber; split
  · exact ⟨"float64", Or.inl rfl, rfl⟩
  · exact ⟨"float32", Or.inr rfl, rfl⟩

/-- `walkString` for a format other than `byte` -/
theorem walkString_shape (a : OAttrs) (hb : a.format ≠ "byte") :
    walkString a = .scalar "string" (stringValue a) (getConstraints a)
      { nullable := a.nullable, dflt := a.dflt, hints := if a.format = "date-time" then [("string_format_datetime", .bool true)] else [] } := by
  unfold walkString
  by_cases h : a.format = "date-time" <;> simp [h, hb]

theorem hasHint_oa (a : OAttrs) :
    hasHint { nullable := a.nullable, dflt := a.dflt, hints := if a.format = "date-time" then [("string_format_datetime", Val.bool true)] else [] }
      "string_format_datetime" = decide (a.format = "date-time") := by
  by_cases h : a.format = "date-time" <;> simp [hasHint, h]

theorem enumMembers_cons (a : OAttrs) (k : String) {vs : List Val} (h : vs ≠ []) :
    ∃ e0 es, enumMembers a k vs = e0 :: es ∧ e0.kind = k := by
  cases vs with
  | nil => exact absurd rfl h
  | cons v rest => exact ⟨_, _, rfl, rfl⟩

theorem view_notByte {pkg cs r T} (V : OView pkg cs r T) : isByteElem T = false := by
  obtain ⟨ref, hv, d, ⟨a, allOf, anyOf, oneOf, props, addl, items⟩⟩ := r
  cases V with
  | ref => rfl
  | enum => rfl
  | string _ _ _ hb => rw [walkString_shape _ hb]; rfl
  | integer =>
    obtain ⟨k, hk, e⟩ := walkInteger_kind a; rw [e]; rcases hk with h | h <;> subst h <;> rfl
  | number =>
    obtain ⟨k, hk, e⟩ := walkNumber_kind a; rw [e]; rcases hk with h | h <;> subst h <;> rfl
  | boolean => rfl
  | any => rfl
  | array => rfl
  | map => rfl
  | struct => rfl

theorem target_shape {pkg cs t T} (ht : targetOK t = true) (V : OView pkg cs t T) : TargetShape T (osrIsColl t) := by
  obtain ⟨ref, hv, d, ⟨a, allOf, anyOf, oneOf, props, addl, items⟩⟩ := t
  cases V with
  | ref t' hr => simp [targetOK, hr] at ht
  | enum vs k hr he hne hnn =>
    obtain ⟨e0, es, e, _⟩ := enumMembers_cons a k hne
    rw [e]
    exact Or.inr (Or.inl ⟨e0, es, _, rfl, rfl, by simp [osrIsColl, osIsColl, noComb, he]⟩)
  | string hr he ht1 hb hp =>
    simp only [targetOK, hr, he, ht1, typeIs_excl ht1 (t' := "integer") (by decide), typeIs_excl ht1 (t' := "number") (by decide),
      typeIs_excl ht1 (t' := "boolean") (by decide), typeIs_excl ht1 (t' := "array") (by decide),
      typeIs_excl ht1 (t' := "object") (by decide), Bool.and_eq_true, Bool.not_eq_true', Bool.or_eq_true, Bool.false_and,
      Bool.or_false, Bool.true_and, decide_eq_true_eq, Bool.false_eq_true, or_false, Bool.not_false] at ht
    obtain ⟨_, ⟨⟨⟨hnn, hdt⟩, _⟩, hpat⟩⟩ := ht
    rw [walkString_shape _ hb]
    have hval : stringValue a = .nil := by
      unfold stringValue
      cases hpat with
      | inl h => simp [h]
      | inr h => simp [h]
    rw [hval]
    refine Or.inr (Or.inr (Or.inl ⟨"string", _, _, rfl, by simp, by simp, ?_, hnn, ?_⟩))
    · rw [hasHint_oa]; simpa using hdt
    · simp [osrIsColl, osIsColl, hr, typeIs_excl ht1 (t' := "array") (by decide), typeIs_excl ht1 (t' := "object") (by decide)]
  | integer hr he ht1 =>
    simp only [targetOK, hr, he, ht1, typeIs_excl ht1 (t' := "string") (by decide),
      typeIs_excl ht1 (t' := "boolean") (by decide), typeIs_excl ht1 (t' := "array") (by decide),
      typeIs_excl ht1 (t' := "object") (by decide), Bool.and_eq_true, Bool.not_eq_true', Bool.or_eq_true, Bool.false_and,
      Bool.or_false, Bool.true_and, Bool.false_eq_true, or_false, false_or, Bool.true_or, Bool.not_false] at ht
    obtain ⟨k, hk, e⟩ := walkInteger_kind a
    rw [e]
    refine Or.inr (Or.inr (Or.inl ⟨k, _, _, rfl, ?_, ?_, rfl, ht.2, ?_⟩))
    · rcases hk with h | h <;> subst h <;> simp
    · rcases hk with h | h <;> subst h <;> simp
    · simp [osrIsColl, osIsColl, hr, typeIs_excl ht1 (t' := "array") (by decide), typeIs_excl ht1 (t' := "object") (by decide)]
  | number hr he ht1 =>
    simp only [targetOK, hr, he, ht1, typeIs_excl ht1 (t' := "string") (by decide),
      typeIs_excl ht1 (t' := "boolean") (by decide), typeIs_excl ht1 (t' := "array") (by decide),
      typeIs_excl ht1 (t' := "object") (by decide), Bool.and_eq_true, Bool.not_eq_true', Bool.or_eq_true, Bool.false_and,
      Bool.or_false, Bool.true_and, Bool.false_eq_true, or_false, false_or, Bool.or_true, Bool.not_false] at ht
    obtain ⟨k, hk, e⟩ := walkNumber_kind a
    rw [e]
    refine Or.inr (Or.inr (Or.inl ⟨k, _, _, rfl, ?_, ?_, rfl, ht.2, ?_⟩))
    · rcases hk with h | h <;> subst h <;> simp
    · rcases hk with h | h <;> subst h <;> simp
    · simp [osrIsColl, osIsColl, hr, typeIs_excl ht1 (t' := "array") (by decide), typeIs_excl ht1 (t' := "object") (by decide)]
  | boolean hr he ht1 hnn =>
    refine Or.inr (Or.inr (Or.inl ⟨"bool", [], _, rfl, by simp, by simp, rfl, rfl, ?_⟩))
    simp [osrIsColl, osIsColl, hr, typeIs_excl ht1 (t' := "array") (by decide), typeIs_excl ht1 (t' := "object") (by decide)]
  | any hr he hany =>
    exfalso
    simp only [osIsAny, Bool.and_eq_true, Bool.not_eq_true', Bool.or_eq_true] at hany
    obtain ⟨⟨⟨⟨⟨⟨_, n1⟩, n2⟩, n3⟩, n4⟩, n5⟩, hobj⟩ := hany
    simp only [targetOK, hr, he, n1, n2, n3, n4, n5, Bool.and_eq_true, Bool.not_eq_true', Bool.or_eq_true, Bool.false_and,
      Bool.or_false, Bool.false_eq_true, or_false, false_or, Bool.not_false, Bool.true_and] at ht
    cases hobj with
    | inl h => rw [h] at ht; simp at ht
    | inr h =>
      have ha : isSome' addl = false := by cases addl <;> simp_all [isSome']
      rw [h.1, ha] at ht
      simp at ht
  | array r' Te hr he ht1 hnn hemp hnc hfr hbr =>
    exact Or.inr (Or.inr (Or.inr (Or.inl ⟨⟨Te, _, rfl, rfl, view_notByte (oview_of pkg cs r' Te hfr hbr).1⟩,
      by simp [osrIsColl, osIsColl, hr, hnc, ht1]⟩)))
  | map r' Te hr he ht1 hnn hemp hnc hfr hbr =>
    exact Or.inr (Or.inr (Or.inr (Or.inr ⟨⟨Te, _, rfl, rfl⟩, by simp [osrIsColl, osIsColl, hr, hnc, ht1]⟩)))
  | struct fs hr he ht1 hnn hemp hpne =>
    refine Or.inl ⟨fs, rfl, ?_⟩
    have : props.isEmpty = false := by cases props <;> simp_all
    simp [osrIsColl, osIsColl, hr, typeIs_excl ht1 (t' := "array") (by decide), this]

/-! ### the world -/

structure OCtx (pkg : String) (cs : Components) (S : Schemas) : Prop where
  world : OWorld pkg cs S
  fragAll : ∀ c ∈ cs, fragR cs c.2 = true

theorem OCtx.target {pkg cs S} (C : OCtx pkg cs S) {name : String} {t : OSR} (hl : lookupComp cs name = some t) :
    ∃ o, Schemas.locateObject S pkg name = some o ∧ fragR cs t = true ∧ Builds pkg t o.ty ∧ OView pkg cs t o.ty := by
  have hs := C.world.has name t hl
  cases ho : Schemas.locateObject S pkg name with
  | none => simp [ho] at hs
  | some o =>
    obtain ⟨r, h1, h2⟩ := C.world.obj name o ho
    rw [hl] at h1; cases h1
    have hf := C.fragAll _ (lookupComp_mem hl)
    exact ⟨o, rfl, hf, h2, (oview_of pkg cs t o.ty hf h2).1⟩

/-- a document of the type built for the referred component is a document of the reference -/
theorem ref_step {S : Schemas} {pkg name : String} {o : Obj} {coll : Bool}
    (ho : Schemas.locateObject S pkg name = some o) (sh : TargetShape o.ty coll) (m : Meta) (k : Nat) (j : Json)
    (hcoll : coll = true → isEmptyColl j = false)
    (h : xden true (k + 1) S o.ty j = true) : xden true (k + 2) S (.ref pkg name m) j = true := by
  rcases sh with ⟨fs, hT, _⟩ | ⟨e0, es, em, hT, hen, _⟩ | ⟨kind, cs', om, hT, hb, ha, hh, hn, _⟩ |
    ⟨⟨e, am, hT, hn, hbe⟩, hc⟩ | ⟨⟨v, mm, hT, hn⟩, hc⟩
  · rw [hT] at h
    simp only [xden, m0, Bool.false_and, Bool.false_or] at h
    simp only [xden, ho, hT, Bool.or_eq_true]
    exact Or.inr (xStructBody_mono true _ _ (fun t j => xden_mono true S k t j) fs j h)
  · rw [hT] at h
    simp only [xden, hen, Bool.false_and, Bool.false_or] at h
    simp only [xden, ho, hT, Bool.or_eq_true]
    exact Or.inr h
  · rw [hT] at h
    rw [xden_scalar_plain S k kind .nil cs' om j hb ha hh] at h
    simp only [hn, Bool.false_and, Bool.false_or, Bool.and_eq_true] at h
    simp only [xden, ho, hT, Bool.and_eq_true, Bool.or_eq_true, bne_iff_ne, ne_eq, Bool.not_eq_true']
    exact ⟨⟨⟨⟨trivial, hb⟩, ha⟩, hh⟩, Or.inr h.1⟩
  · rw [hT] at h
    simp only [xden, Bool.and_eq_true, Bool.not_eq_true'] at h
    simp only [xden, ho, hT, Bool.and_eq_true, Bool.not_eq_true']
    exact ⟨hcoll hc, h⟩
  · rw [hT] at h
    simp only [xden, stringTy, Bool.and_eq_true, Bool.not_eq_true'] at h
    simp only [xden, stringTy, ho, hT, Bool.and_eq_true, Bool.not_eq_true']
    exact ⟨hcoll hc, h⟩

theorem ref_null {S : Schemas} {pkg name : String} {o : Obj} {coll : Bool}
    (ho : Schemas.locateObject S pkg name = some o) (sh : TargetShape o.ty coll) (hnc : coll = false) (k : Nat) :
    xden true (k + 1) S (.ref pkg name { nullable := true }) .null = true := by
  rcases sh with ⟨fs, hT, _⟩ | ⟨e0, es, em, hT, _, _⟩ | ⟨kind, cs', om, hT, hb, ha, hh, hn, _⟩ | ⟨_, hc⟩ | ⟨_, hc⟩
  · simp [xden, ho, hT, Json.isNull]
  · simp [xden, ho, hT, Json.isNull]
  · simp [xden, ho, hT, Json.isNull, hb, ha, hh]
  · rw [hnc] at hc; cases hc
  · rw [hnc] at hc; cases hc

/-- `null` for an absent optional member -/
theorem absent_ok {pkg cs S} (C : OCtx pkg cs S) {r : OSR} {T : Ty} (V : OView pkg cs r T)
    (hnc : refToColl cs r = false) (k : Nat) : xden true (k + 1) S (setNullable true T) .null = true := by
  obtain ⟨ref, hv, d, ⟨a, allOf, anyOf, oneOf, props, addl, items⟩⟩ := r
  cases V with
  | ref t hr hl ht =>
    obtain ⟨o, ho, _, _, Vt⟩ := C.target hl
    rw [setNullable_ref]
    have : osrIsColl t = false := by simpa [refToColl, hr, hl] using hnc
    exact ref_null ho (target_shape ht Vt) this k
  | enum vs kd hr he hne =>
    obtain ⟨e0, es, e, _⟩ := enumMembers_cons a kd hne
    rw [e]
    simp [setNullable, Ty.setMeta, Ty.getMeta, xden, Json.isNull]
  | string _ _ _ hb => rw [walkString_shape _ hb]; exact null_scalar S k _ _ _ _ (by simp) (by simp)
  | integer =>
    obtain ⟨kd, hk, e⟩ := walkInteger_kind a; rw [e]
    rcases hk with h | h <;> subst h <;> exact null_scalar S k _ _ _ _ (by simp) (by simp)
  | number =>
    obtain ⟨kd, hk, e⟩ := walkNumber_kind a; rw [e]
    rcases hk with h | h <;> subst h <;> exact null_scalar S k _ _ _ _ (by simp) (by simp)
  | boolean => exact null_scalar S k _ _ _ _ (by simp) (by simp)
  | any => simp [setNullable, Ty.setMeta, Ty.getMeta, anyTy, xden, anyExact, wfDeep]
  | array r' Te _ _ _ _ _ _ hfr hbr =>
    have := view_notByte (oview_of pkg cs r' Te hfr hbr).1
    simp [setNullable, Ty.setMeta, Ty.getMeta, xden, this]
  | map => simp [setNullable, Ty.setMeta, Ty.getMeta, xden, stringTy]
  | struct => simp [setNullable, Ty.setMeta, Ty.getMeta, xden, Json.isNull]

theorem collLike_sound {pkg cs r T} (V : OView pkg cs r T) (h : isCollLike T = true) : osrIsColl r = true := by
  obtain ⟨ref, hv, d, ⟨a, allOf, anyOf, oneOf, props, addl, items⟩⟩ := r
  cases V with
  | ref => simp [isCollLike] at h
  | enum => simp [isCollLike] at h
  | string _ _ _ hb => rw [walkString_shape _ hb] at h; simp [isCollLike] at h
  | integer =>
    obtain ⟨kd, _, e⟩ := walkInteger_kind a; rw [e] at h; simp [isCollLike] at h
  | number =>
    obtain ⟨kd, _, e⟩ := walkNumber_kind a; rw [e] at h; simp [isCollLike] at h
  | boolean => simp [isCollLike] at h
  | any => simp [isCollLike, anyTy] at h
  | array r' Te hr he ht1 hnn hemp hnc => simp [osrIsColl, osIsColl, hr, hnc, ht1]
  | map r' Te hr he ht1 hnn hemp hnc => simp [osrIsColl, osIsColl, hr, hnc, ht1]
  | struct => simp [isCollLike] at h

end Cog.Front.OpenApi
