/-
  C01 (b) — what `generateAST` declares.  Invariant of the generator state along `walkDefinition` (the
  `seen` set, the object map) and its consequence for the schema `GenerateAST` returns:

    every object of the result is stored under the name of a definition of the table, its type is a type
    `walkDefinition` builds for that definition (`Builds`), and every reference inside it names the
    result's package and an object of the result (`frontEnd_spec`).

  Proof: one induction on the fuel; each helper (`walkBranches`, `walkProps`, `walkObject`, `walkArray`,
  `declare`, `walkRef`) preserves the specification `WSpec` of its recursive-call parameter.
-/
import Cog.Front.JsonSchema
import Cog.OMap.Lemmas
namespace Cog.Front.JsonSchema
open Cog.IR
open Cog.OMap (rget rset rget_rset)

/-- `T` is a type the generator builds for the schema `s` (some fuel, some state) -/
def Builds (pkg : String) (defs : Defs) (s : JS) (T : Ty) : Prop :=
  ∃ k st st', walkDefinition pkg defs k s st = .ok (T, st')

/-! ### association lists -/

theorem keys_rset (k : String) (v : Obj) : ∀ l : Objects,
    (rset k v l).map (·.1) = if k ∈ l.map (·.1) then l.map (·.1) else l.map (·.1) ++ [k]
  | [] => by simp [rset]
  | (a, b) :: t => by
    by_cases h : a = k
    · subst h; simp [rset]
    · have h' : ¬ k = a := fun c => h c.symm
      simp only [rset, h, if_false, List.map_cons, List.mem_cons, h', false_or]
      rw [keys_rset k v t]
      split <;> simp

theorem nodup_keys_rset (k : String) (v : Obj) (l : Objects) (h : (l.map (·.1)).Nodup) :
    ((rset k v l).map (·.1)).Nodup := by
  rw [keys_rset]
  split
  · exact h
  · rename_i hk
    exact List.nodup_append.mpr ⟨h, by simp, by
      intro a ha b hb
      simp at hb
      subst hb
      intro c; subst c; exact hk ha⟩

theorem rget_some_mem {k : String} {v : Obj} : ∀ {l : Objects}, rget k l = some v → (k, v) ∈ l
  | [], h => by simp [rget] at h
  | (a, b) :: t, h => by
    by_cases e : a = k
    · subst e; simp [rget] at h; subst h; simp
    · simp [rget, e] at h; exact List.mem_cons_of_mem _ (rget_some_mem h)

theorem mem_rget_some {k : String} {v : Obj} : ∀ {l : Objects}, (l.map (·.1)).Nodup → (k, v) ∈ l → rget k l = some v
  | [], _, h => by simp at h
  | (a, b) :: t, nd, h => by
    simp only [List.map_cons, List.nodup_cons] at nd
    by_cases e : a = k
    · subst e
      simp only [List.mem_cons] at h
      cases h with
      | inl h => cases h; simp [rget]
      | inr h => exact absurd (List.mem_map.mpr ⟨(a, v), h, rfl⟩) nd.1
    · simp only [List.mem_cons] at h
      cases h with
      | inl h => cases h; exact absurd rfl e
      | inr h => simp [rget, e]; exact mem_rget_some nd.2 h

theorem rget_perm {l l' : Objects} (hp : l.Perm l') (nd : (l.map (·.1)).Nodup) (k : String) :
    rget k l' = rget k l := by
  have nd' : (l'.map (·.1)).Nodup := (hp.map _).nodup_iff.mp nd
  cases h : rget k l with
  | some v => exact mem_rget_some nd' (hp.mem_iff.mp (rget_some_mem h))
  | none =>
    cases h' : rget k l' with
    | none => rfl
    | some v =>
      have := mem_rget_some nd (hp.mem_iff.mpr (rget_some_mem h'))
      rw [h] at this; cases this

theorem sortObjects_rget (os : Objects) (nd : (os.map (·.1)).Nodup) (k : String) :
    rget k (sortObjects os) = rget k os :=
  rget_perm (isort_perm _ _).symm nd k

theorem lookupDef_mem {defs : Defs} {name : String} {s : JS} (h : lookupDef defs name = some s) :
    (name, s) ∈ defs := by
  induction defs with
  | nil => simp [lookupDef] at h
  | cons d rest ih =>
    obtain ⟨n, s0⟩ := d
    simp only [lookupDef] at h
    split at h
    · rename_i e; cases h; subst e; simp
    · exact List.mem_cons_of_mem _ (ih h)

/-! ### references of the types the helpers build -/

theorem mem_refsFields {r : String × String} : ∀ {fs : List Field},
    r ∈ Ty.refsFields fs ↔ ∃ f ∈ fs, r ∈ Ty.refs f.ty
  | [] => by simp [Ty.refsFields]
  | f :: fs => by simp [Ty.refsFields, mem_refsFields (fs := fs)]

theorem mem_refsList {r : String × String} : ∀ {ts : List Ty},
    r ∈ Ty.refsList ts ↔ ∃ t ∈ ts, r ∈ Ty.refs t
  | [] => by simp [Ty.refsList]
  | t :: ts => by simp [Ty.refsList, mem_refsList (ts := ts)]

theorem scalarBranches_refs : ∀ (ts : List String) (bs : List Ty), scalarBranches ts = .ok bs → Ty.refsList bs = []
  | [], bs, h => by simp [scalarBranches] at h; subst h; rfl
  | t :: ts, bs, h => by
    simp only [scalarBranches] at h
    split at h
    · cases h
    · obtain ⟨bs', h1, h2⟩ := obind_ok h
      cases h2
      simp [Ty.refsList, Ty.refs, scalarBranches_refs ts bs' h1]

theorem walkEnum_refs (vals : List JV) (T : Ty) (h : walkEnum vals = .ok T) : Ty.refs T = [] := by
  cases vals with
  | nil => simp [walkEnum] at h
  | cons v vs => simp [walkEnum] at h; subst h; simp [Ty.refs]

theorem walkUntypedConstant_refs (c : JV) (T : Ty) (h : walkUntypedConstant c = .ok T) : Ty.refs T = [] := by
  cases c with
  | num t f =>
    simp only [walkUntypedConstant] at h
    split at h
    · cases h; simp [Ty.refs]
    · split at h
      · cases h; simp [Ty.refs]
      · cases h
  | null => simp [walkUntypedConstant] at h; subst h; simp [Ty.refs, nullTy]
  | bool b => simp [walkUntypedConstant] at h; subst h; simp [Ty.refs]
  | str s => simp [walkUntypedConstant] at h; subst h; simp [Ty.refs]
  | arr _ => simp [walkUntypedConstant] at h
  | obj _ => simp [walkUntypedConstant] at h

/-! ### the state invariant -/

structure Good (pkg : String) (defs : Defs) (st : St) : Prop where
  nodup : (st.objects.map (·.1)).Nodup
  keys_seen : ∀ n o, rget n st.objects = some o → n ∈ st.seen
  obj_ok : ∀ n o, rget n st.objects = some o →
    o.name = n ∧ o.selfPkg = pkg ∧ o.selfName = n ∧
    (∃ js, lookupDef defs n = some js ∧ Builds pkg defs js o.ty) ∧
    (∀ r ∈ Ty.refs o.ty, r.1 = pkg ∧ r.2 ∈ st.seen)

def RefsSeen (pkg : String) (seen : List String) (rs : List (String × String)) : Prop :=
  ∀ r ∈ rs, r.1 = pkg ∧ r.2 ∈ seen

/-- what a successful call does to the state: it stays good; `seen` and the objects only grow; every name
    it marks seen gets its object before it returns -/
structure Step (pkg : String) (defs : Defs) (st st' : St) : Prop where
  good : Good pkg defs st'
  seen_mono : ∀ n, n ∈ st.seen → n ∈ st'.seen
  obj_mono : ∀ n o, rget n st.objects = some o → rget n st'.objects = some o
  declared : ∀ n, n ∈ st'.seen → n ∈ st.seen ∨ (rget n st'.objects).isSome = true

theorem Step.refl {pkg defs st} (h : Good pkg defs st) : Step pkg defs st st :=
  ⟨h, fun _ h => h, fun _ _ h => h, fun _ h => Or.inl h⟩

theorem Step.trans {pkg defs st st1 st2} (a : Step pkg defs st st1) (b : Step pkg defs st1 st2) : Step pkg defs st st2 :=
  ⟨b.good, fun n h => b.seen_mono n (a.seen_mono n h), fun n o h => b.obj_mono n o (a.obj_mono n o h), fun n h => by
    cases b.declared n h with
    | inr h' => exact Or.inr h'
    | inl h' =>
      cases a.declared n h' with
      | inl h'' => exact Or.inl h''
      | inr h'' =>
        cases ho : rget n st1.objects with
        | none => simp [ho] at h''
        | some o => exact Or.inr (by simp [b.obj_mono n o ho])⟩

theorem RefsSeen.mono {pkg seen seen' rs} (h : RefsSeen pkg seen rs) (hm : ∀ n, n ∈ seen → n ∈ seen') : RefsSeen pkg seen' rs :=
  fun r hr => ⟨(h r hr).1, hm _ (h r hr).2⟩

/-- specification of the recursive-call parameter -/
def WSpec (pkg : String) (defs : Defs) (w : Walk) : Prop :=
  ∀ s st T st', w s st = .ok (T, st') → Good pkg defs st →
    Step pkg defs st st' ∧ RefsSeen pkg st'.seen (Ty.refs T) ∧ (∃ k st0 st1, walkDefinition pkg defs k s st0 = .ok (T, st1))

theorem walkBranches_spec {pkg defs w} (hw : WSpec pkg defs w) : ∀ (ss : List JS) (st : St) (Ts : List Ty) (st' : St),
    walkBranches w ss st = .ok (Ts, st') → Good pkg defs st →
    Step pkg defs st st' ∧ RefsSeen pkg st'.seen (Ty.refsList Ts)
  | [], st, Ts, st', h, hg => by
    simp [walkBranches] at h
    obtain ⟨h1, h2⟩ := h; subst h1; subst h2
    exact ⟨Step.refl hg, by intro r hr; simp [Ty.refsList] at hr⟩
  | s :: ss, st, Ts, st', h, hg => by
    simp only [walkBranches] at h
    obtain ⟨⟨T1, st1⟩, h1, h2⟩ := obind_ok h
    obtain ⟨⟨Ts2, st2⟩, h3, h4⟩ := obind_ok h2
    simp at h4
    obtain ⟨h5, h6⟩ := h4; subst h5; subst h6
    obtain ⟨sa, ra, _⟩ := hw s st T1 st1 h1 hg
    obtain ⟨sb, rb⟩ := walkBranches_spec hw ss st1 Ts2 st2 h3 sa.good
    refine ⟨sa.trans sb, ?_⟩
    intro r hr
    simp only [Ty.refsList, List.mem_append] at hr
    cases hr with
    | inl hr => exact (ra.mono sb.seen_mono) r hr
    | inr hr => exact rb r hr

theorem walkProps_spec {pkg defs w} (hw : WSpec pkg defs w) (req : List String) :
    ∀ (ps : List (String × JS)) (st : St) (fs : List Field) (st' : St),
    walkProps w req ps st = .ok (fs, st') → Good pkg defs st →
    Step pkg defs st st' ∧ RefsSeen pkg st'.seen (Ty.refsFields fs)
  | [], st, fs, st', h, hg => by
    simp [walkProps] at h
    obtain ⟨h1, h2⟩ := h; subst h1; subst h2
    exact ⟨Step.refl hg, by intro r hr; simp [Ty.refsFields] at hr⟩
  | (name, s) :: ps, st, fs, st', h, hg => by
    simp only [walkProps] at h
    obtain ⟨⟨T1, st1⟩, h1, h2⟩ := obind_ok h
    obtain ⟨⟨fs2, st2⟩, h3, h4⟩ := obind_ok h2
    simp at h4
    obtain ⟨h5, h6⟩ := h4; subst h5; subst h6
    obtain ⟨sa, ra, _⟩ := hw s st T1 st1 h1 hg
    obtain ⟨sb, rb⟩ := walkProps_spec hw req ps st1 fs2 st2 h3 sa.good
    refine ⟨sa.trans sb, ?_⟩
    intro r hr
    simp only [Ty.refsFields, List.mem_append] at hr
    cases hr with
    | inl hr => exact (ra.mono sb.seen_mono) r hr
    | inr hr => exact rb r hr

theorem refsFields_sortFields {r : String × String} {fs : List Field} (h : r ∈ Ty.refsFields (sortFields fs)) :
    r ∈ Ty.refsFields fs := by
  obtain ⟨f, hf, hr⟩ := mem_refsFields.mp h
  exact mem_refsFields.mpr ⟨f, (isort_perm _ _).mem_iff.mp hf, hr⟩

theorem walkObject_spec {pkg defs w} (hw : WSpec pkg defs w) (a : JAttrs) (props : List (String × JS)) (addl : JAddl)
    (st : St) (T : Ty) (st' : St) (h : walkObject w a props addl st = .ok (T, st')) (hg : Good pkg defs st) :
    Step pkg defs st st' ∧ RefsSeen pkg st'.seen (Ty.refs T) := by
  unfold walkObject at h
  split at h
  · cases addl with
    | none => simp at h; obtain ⟨h1, h2⟩ := h; subst h1; subst h2; exact ⟨Step.refl hg, by intro r hr; simp [anyTy, Ty.refs] at hr⟩
    | bool b => simp at h; obtain ⟨h1, h2⟩ := h; subst h1; subst h2; exact ⟨Step.refl hg, by intro r hr; simp [anyTy, Ty.refs] at hr⟩
    | schema s =>
      simp only at h
      obtain ⟨⟨T1, st1⟩, h1, h2⟩ := obind_ok h
      simp at h2
      obtain ⟨h3, h4⟩ := h2; subst h3; subst h4
      obtain ⟨sa, ra, _⟩ := hw s st T1 st1 h1 hg
      exact ⟨sa, by intro r hr; simp [Ty.refs, stringTy] at hr; exact ra r hr⟩
  · obtain ⟨⟨fs, st1⟩, h1, h2⟩ := obind_ok h
    simp at h2
    obtain ⟨h3, h4⟩ := h2; subst h3; subst h4
    obtain ⟨sa, ra⟩ := walkProps_spec hw a.required props st fs st1 h1 hg
    exact ⟨sa, by
      intro r hr
      simp only [Ty.refs, Ty.refsList, List.append_nil] at hr
      exact ra r (refsFields_sortFields hr)⟩

theorem walkArray_spec {pkg defs w} (hw : WSpec pkg defs w) (a : JAttrs) (items items2020 : JItems)
    (st : St) (T : Ty) (st' : St) (h : walkArray w a items items2020 st = .ok (T, st')) (hg : Good pkg defs st) :
    Step pkg defs st st' ∧ RefsSeen pkg st'.seen (Ty.refs T) := by
  unfold walkArray at h
  have one : ∀ s, (obind (w s st) fun r => Outcome.ok (Ty.array r.1 { dflt := a.dflt.toVal }, r.2)) = .ok (T, st') →
      Step pkg defs st st' ∧ RefsSeen pkg st'.seen (Ty.refs T) := by
    intro s h
    obtain ⟨⟨T1, st1⟩, h1, h2⟩ := obind_ok h
    simp at h2
    obtain ⟨h3, h4⟩ := h2; subst h3; subst h4
    obtain ⟨sa, ra, _⟩ := hw s st T1 st1 h1 hg
    exact ⟨sa, by intro r hr; simp [Ty.refs] at hr; exact ra r hr⟩
  cases items2020 with
  | one s2 => exact one s2 h
  | tuple _ => simp at h
  | none =>
    cases items with
    | none =>
      simp at h
      obtain ⟨h1, h2⟩ := h; subst h1; subst h2
      exact ⟨Step.refl hg, by intro r hr; simp [anyTy, Ty.refs] at hr⟩
    | one s1 => exact one s1 h
    | tuple _ => simp at h

theorem walkRef_spec {pkg defs w} (hw : WSpec pkg defs w) (name : String)
    (st : St) (T : Ty) (st' : St) (h : walkRef w pkg defs name st = .ok (T, st')) (hg : Good pkg defs st) :
    Step pkg defs st st' ∧ RefsSeen pkg st'.seen (Ty.refs T) ∧ T = .ref pkg name m0 := by
  unfold walkRef at h
  cases hl : lookupDef defs name with
  | none => simp [hl] at h
  | some target =>
    simp only [hl] at h
    obtain ⟨st2, h1, h2⟩ := obind_ok h
    simp at h2
    obtain ⟨h3, h4⟩ := h2; subst h3; subst h4
    unfold declare at h1
    split at h1
    · rename_i hs
      cases h1
      exact ⟨Step.refl hg, by intro r hr; simp [Ty.refs] at hr; subst hr; exact ⟨rfl, by simpa using hs⟩, rfl⟩
    · rename_i hs
      have hns : name ∉ st.seen := by simpa using hs
      obtain ⟨⟨T1, st1⟩, h5, h6⟩ := obind_ok h1
      simp at h6
      subst h6
      have hg0 : Good pkg defs { st with seen := name :: st.seen } :=
        ⟨hg.nodup, fun n o h => List.mem_cons_of_mem _ (hg.keys_seen n o h), fun n o h => by
          obtain ⟨a, b, c, d, e⟩ := hg.obj_ok n o h
          exact ⟨a, b, c, d, fun r hr => ⟨(e r hr).1, List.mem_cons_of_mem _ (e r hr).2⟩⟩⟩
      obtain ⟨sa, ra, hb⟩ := hw target _ T1 st1 h5 hg0
      have hname1 : name ∈ st1.seen := sa.seen_mono name (by simp)
      refine ⟨⟨⟨nodup_keys_rset _ _ _ sa.good.nodup, ?_, ?_⟩, ?_, ?_, ?_⟩, ?_, rfl⟩
      · intro n o h
        simp only [rget_rset] at h
        split at h
        · rename_i e; subst e; exact hname1
        · exact sa.good.keys_seen n o h
      · intro n o h
        simp only [rget_rset] at h
        split at h
        · rename_i e; subst e; cases h
          exact ⟨rfl, rfl, rfl, ⟨target, hl, hb⟩, ra⟩
        · exact sa.good.obj_ok n o h
      · intro n h; exact sa.seen_mono n (List.mem_cons_of_mem _ h)
      · intro n o h
        have hn : n ∈ st.seen := hg.keys_seen n o h
        have hne : ¬ name = n := fun e => hns (e ▸ hn)
        simp only [rget_rset, hne, if_false]
        exact sa.obj_mono n o h
      · intro n h
        simp only [rget_rset]
        by_cases e : name = n
        · simp [e]
        · simp only [e, if_false]
          cases sa.declared n h with
          | inl h' =>
            simp only [List.mem_cons] at h'
            cases h' with
            | inl h' => exact absurd h'.symm e
            | inr h' => exact Or.inl h'
          | inr h' => exact Or.inr h'
      · intro r hr
        simp [Ty.refs] at hr
        subst hr
        exact ⟨rfl, hname1⟩

/-- the specification holds for `walkDefinition` at every fuel -/
theorem walkDefinition_spec (pkg : String) (defs : Defs) : ∀ k, WSpec pkg defs (walkDefinition pkg defs k)
  | 0 => by intro s st T st' h _; simp [walkDefinition] at h
  | k + 1 => by
    have ih := walkDefinition_spec pkg defs k
    intro s st T st' h hg
    have hb : ∃ k st0 st1, walkDefinition pkg defs k s st0 = .ok (T, st1) := ⟨k + 1, st, st', h⟩
    suffices hAB : Step pkg defs st st' ∧ RefsSeen pkg st'.seen (Ty.refs T) from ⟨hAB.1, hAB.2, hb⟩
    clear hb
    cases s with
    | mk a oneOf anyOf allOf props addl items items2020 =>
    unfold walkDefinition at h
    simp only at h
    have same : ∀ {T0 : Ty}, Ty.refs T0 = [] → (Outcome.ok (T0, st) : Outcome (Ty × St)) = .ok (T, st') →
        Step pkg defs st st' ∧ RefsSeen pkg st'.seen (Ty.refs T) := by
      intro T0 hr h
      simp at h
      obtain ⟨h1, h2⟩ := h; subst h1; subst h2
      exact ⟨Step.refl hg, by intro r hr'; rw [hr] at hr'; simp at hr'⟩
    have branches : ∀ (bs : List JS) (mk : List Ty → Ty), (∀ Ts, Ty.refs (mk Ts) = Ty.refsList Ts) →
        (obind (walkBranches (walkDefinition pkg defs k) bs st) fun r => Outcome.ok (mk r.1, r.2)) = .ok (T, st') →
        Step pkg defs st st' ∧ RefsSeen pkg st'.seen (Ty.refs T) := by
      intro bs mk hmk h
      obtain ⟨⟨Ts, st1⟩, h1, h2⟩ := obind_ok h
      simp at h2
      obtain ⟨h3, h4⟩ := h2; subst h3; subst h4
      obtain ⟨sa, ra⟩ := walkBranches_spec ih bs st Ts st1 h1 hg
      exact ⟨sa, by rw [hmk]; exact ra⟩
    cases hr : a.ref with
    | some name =>
      simp only [hr] at h
      obtain ⟨sa, ra, _⟩ := walkRef_spec ih name st T st' h hg
      exact ⟨sa, ra⟩
    | none =>
      simp only [hr] at h
      split at h
      · split at h
        · cases h
        · exact branches oneOf (fun Ts => .disj Ts {} m0) (fun Ts => by simp [Ty.refs]) h
      · split at h
        · split at h
          · cases h
          · exact branches anyOf (fun Ts => .disj Ts {} m0) (fun Ts => by simp [Ty.refs]) h
        · split at h
          · exact branches allOf (fun Ts => .inter Ts m0) (fun Ts => by simp [Ty.refs]) h
          · cases he : a.enum with
            | some vals =>
              simp only [he] at h
              obtain ⟨T0, h1, h2⟩ := obind_ok h
              exact same (walkEnum_refs vals T0 h1) h2
            | none =>
              simp only [he] at h
              cases ht : a.types with
              | nil =>
                simp only [ht] at h
                split at h
                · exact walkObject_spec ih a props addl st T st' h hg
                · cases hc : a.const with
                  | some c =>
                    simp only [hc] at h
                    obtain ⟨T0, h1, h2⟩ := obind_ok h
                    exact same (walkUntypedConstant_refs c T0 h1) h2
                  | none =>
                    simp only [hc] at h
                    exact same (by simp [anyTy, Ty.refs]) h
              | cons t ts =>
                cases ts with
                | nil =>
                  simp only [ht] at h
                  split at h
                  · exact same (by simp [nullTy, Ty.refs]) h
                  · split at h
                    · exact same (by simp [walkBool, Ty.refs]) h
                    · split at h
                      · exact same (by simp [walkString, Ty.refs]) h
                      · split at h
                        · exact walkObject_spec ih a props addl st T st' h hg
                        · split at h
                          · exact same (by simp [walkNumber, Ty.refs]) h
                          · split at h
                            · exact walkArray_spec ih a items items2020 st T st' h hg
                            · cases h
                | cons t2 ts2 =>
                  simp only [ht] at h
                  obtain ⟨bs, h1, h2⟩ := obind_ok h
                  exact same (by simp [Ty.refs, scalarBranches_refs _ bs h1]) h2

/-! ### GenerateAST -/

/-- what the soundness proof uses of the schema set the front-end returns -/
structure World (pkg : String) (defs : Defs) (S : Schemas) : Prop where
  locate : ∀ n, ∃ sch, S = [sch] ∧ sch.pkg = pkg ∧ Schemas.locateObject S pkg n = rget n sch.objects
  obj : ∀ n o, Schemas.locateObject S pkg n = some o →
    ∃ js, lookupDef defs n = some js ∧ Builds pkg defs js o.ty
  closed : ∀ n o, Schemas.locateObject S pkg n = some o →
    ∀ r ∈ Ty.refs o.ty, r.1 = pkg ∧ (Schemas.locateObject S pkg r.2).isSome = true
  self : ∀ n o, Schemas.locateObject S pkg n = some o → o.name = n ∧ o.selfPkg = pkg ∧ o.selfName = n

/-- the result of the front-end on a root that is a reference to definition `root` -/
theorem frontEnd_spec (pkg : String) (defs : Defs) (fuel : Nat) (root : String) (S : Schemas)
    (h : frontEnd pkg defs fuel (refTo root) = .ok S) :
    World pkg defs S ∧ (Schemas.locateObject S pkg root).isSome = true := by
  unfold frontEnd at h
  obtain ⟨sch, h1, h2⟩ := obind_ok h
  cases h2
  unfold generateAST at h1
  simp only [refTo, JS.attrs, rootName] at h1
  cases hl : lookupDef defs root with
  | none => simp [hl, obind] at h1
  | some target =>
    simp only [hl] at h1
    obtain ⟨st, h3, h4⟩ := obind_ok h1
    simp at h4
    have hg0 : Good pkg defs {} := ⟨by simp, by intro n o h; simp [rget] at h, by intro n o h; simp [rget] at h⟩
    -- `declare` from the empty state = `walkRef` without the lookup
    have hw : walkRef (walkDefinition pkg defs fuel) pkg defs root {} = .ok (.ref pkg root m0, st) := by
      simp [walkRef, hl, h3, obind]
    obtain ⟨sa, ra, _⟩ := walkRef_spec (walkDefinition_spec pkg defs fuel) root {} _ st hw hg0
    have allDeclared : ∀ n, n ∈ st.seen → (rget n st.objects).isSome = true := by
      intro n hn
      cases sa.declared n hn with
      | inl h' => simp at h'
      | inr h' => exact h'
    have hloc : ∀ n, Schemas.locateObject [sch] pkg n = rget n st.objects := by
      intro n
      subst h4
      simp [Schemas.locateObject, Schemas.locate, Schema.locateObject, sortObjects_rget _ sa.good.nodup]
    refine ⟨⟨fun n => ⟨sch, rfl, by subst h4; rfl, ?_⟩, ?_, ?_, ?_⟩, ?_⟩
    · subst h4
      simp [Schemas.locateObject, Schemas.locate, Schema.locateObject]
    · intro n o ho
      rw [hloc] at ho
      exact (sa.good.obj_ok n o ho).2.2.2.1
    · intro n o ho r hr
      rw [hloc] at ho
      obtain ⟨e1, e2⟩ := (sa.good.obj_ok n o ho).2.2.2.2 r hr
      exact ⟨e1, by rw [hloc]; exact allDeclared _ e2⟩
    · intro n o ho
      rw [hloc] at ho
      obtain ⟨a, b, c, _, _⟩ := sa.good.obj_ok n o ho
      exact ⟨a, b, c⟩
    · rw [hloc]
      exact allDeclared root ((ra (pkg, root) (by simp [Ty.refs])).2)

end Cog.Front.JsonSchema
