/-
  C01 (b) — model of the JSON Schema front-end, internal/jsonschema/{generator.go,utils.go}, from the
  LIBRARY's compiled value (`*jsonschema.Schema` of santhosh-tekuri/jsonschema/v5) down to the FULL IR
  (`Cog.IR.Schema`: kinds, nullable, defaults, constant values, constraints, hints, comments), so that
  the result can be compared VIR-equal with the real `GenerateAST` (stream `c01-front`,
  harness/c01_front.go, driver Cog/Drv/FrontDrv.lean).  Core Lean only.

  `JS` mirrors the fields of the library's `Schema` that the generator reads — and those the validation
  semantics `jsv` (Cog/Front/JsonSchemaValid.lean) needs:
    * `Ref` is a pointer to another compiled schema: here the NAME the generator derives from it
      (`definitionNameFromRef`: last `/`-segment of `Ref.Location`), looked up in `defs`
      (name ↦ compiled target); the encoder refuses a schema in which two different targets get the
      same name (the generator would conflate them in map-iteration order);
    * `Items` is `interface{}`: nil | `*Schema` | `[]*Schema`; `Items2020` is `*Schema` or nil;
    * `AdditionalProperties` is `interface{}`: nil | bool | `*Schema`;
    * `OneOf` / `AnyOf` / `AllOf` / `Enum` / `Properties` / `PatternProperties` are tested with `!= nil`
      (`has…` flags); `Constant` is nil or a ONE-element slice (the only two values the library builds);
    * `Properties` is a Go map: here a key-sorted association list.  The generator walks it in map order
      and sorts the fields afterwards; the set of objects it declares and every type it builds do not
      depend on that order on success (each definition is declared once, `seen`), only the text of the
      first error does — the comparison is on the ok/err class;
    * `Default`, `Enum`, `Constant` hold JSON decoded with `UseNumber`: `JV` (numbers keep their text;
      `f64` is Go's shortest rendering of `json.Number.Float64()`, "" when that fails: data computed by
      the encoder, the float conversion itself is not modelled);
    * `Minimum` … are `*big.Rat`: `Bound` = exact value + Go's rendering of `Rat.Float64()`.

  Recursion: every `walkDefinition` call consumes one unit of fuel (`err "fuel"` is not an outcome of
  the Go code: the check asks for enough fuel); all other functions are non-recursive helpers that
  receive the recursive call as a parameter, so that the only structural argument is the fuel
  (kernel-evaluable, one induction in the proofs).
-/
import Cog.IR.Basic
import Cog.OMap.Spec
namespace Cog.Front.JsonSchema
open Cog.IR
open Cog.OMap (rget rset)

/-! ### JSON values held by the compiled schema (`default`, `enum`, `const`) -/

inductive JV where
  | null
  | bool (b : Bool)
  | num (text f64 : String)          -- json.Number; f64 = FormatFloat(Float64(), 'g', -1), "" = error
  | str (s : String)
  | arr (xs : List JV)
  | obj (kvs : List (String × JV))   -- map[string]interface{}, key-sorted
  deriving Inhabited

/-- `*big.Rat` bound: num/den and Go's shortest text of `Rat.Float64()` -/
structure Bound where
  num : Int
  den : Nat
  f64 : String
  deriving Inhabited

structure JAttrs where
  ref : Option String := none            -- `Ref != nil`: definitionNameFromRef
  always : Option Bool := none           -- boolean schema (the generator does not look at it)
  types : List String := []
  enum : Option (List JV) := none
  const : Option JV := none              -- `Constant`: nil | [v]
  hasOneOf : Bool := false
  hasAnyOf : Bool := false
  hasAllOf : Bool := false
  hasProps : Bool := false
  hasPatternProps : Bool := false
  required : List String := []
  format : String := ""
  fmtAsserted : Bool := false            -- the library attached a format checker (validation only)
  minLength : Int := -1
  maxLength : Int := -1
  pattern : Option String := none
  minimum : Option Bound := none
  exclMinimum : Option Bound := none
  maximum : Option Bound := none
  exclMaximum : Option Bound := none
  dflt : JV := .null                     -- `Default interface{}`: nil for absent and for `null`
  description : String := ""
  unmodelled : List String := []         -- validation keywords present that `jsv` does not read
  deriving Inhabited

mutual
inductive JS where
  | mk (a : JAttrs) (oneOf anyOf allOf : List JS) (props : List (String × JS))
       (addl : JAddl) (items : JItems) (items2020 : JItems)
inductive JItems where
  | none
  | one (s : JS)
  | tuple (ss : List JS)
inductive JAddl where
  | none
  | bool (b : Bool)
  | schema (s : JS)
end

instance : Inhabited JS := ⟨.mk {} [] [] [] [] .none .none .none⟩

abbrev Defs := List (String × JS)

def JS.attrs : JS → JAttrs
  | .mk a .. => a

def lookupDef (defs : Defs) (name : String) : Option JS :=
  match defs with
  | [] => none
  | (n, s) :: rest => if n = name then some s else lookupDef rest name

/-! ### Go values -/

mutual
/-- the Go value as it is stored in the IR (`any`): json.Number stays json.Number -/
def JV.toVal : JV → Val
  | .null => .nil
  | .bool b => .bool b
  | .num t _ => .jnum t
  | .str s => .str s
  | .arr xs => .list (JV.toValList xs)
  | .obj kvs => .map (JV.toValMembers kvs)
def JV.toValList : List JV → List Val
  | [] => []
  | x :: xs => JV.toVal x :: JV.toValList xs
def JV.toValMembers : List (String × JV) → List (String × Val)
  | [] => []
  | (k, v) :: t => (k, JV.toVal v) :: JV.toValMembers t
end

def digitVal (c : Char) : Option Nat :=
  if '0' ≤ c ∧ c ≤ '9' then some (c.toNat - 48) else none

def digitsVal : List Char → Nat → Option Nat
  | [], acc => some acc
  | c :: cs, acc => match digitVal c with
    | some d => digitsVal cs (acc * 10 + d)
    | none => none

/-- `strconv.ParseInt(s, 10, 64)` on JSON number text: an optional `-`, then digits only, in range -/
def parseInt64 (s : String) : Option Int :=
  let inRange (n : Int) : Option Int :=
    if -9223372036854775808 ≤ n ∧ n ≤ 9223372036854775807 then some n else none
  match s.toList with
  | [] => none
  | '-' :: c :: cs => match digitsVal (c :: cs) 0 with
    | some n => inRange (-(Int.ofNat n))
    | none => none
  | '+' :: c :: cs => match digitsVal (c :: cs) 0 with
    | some n => inRange (Int.ofNat n)
    | none => none
  | c :: cs => match digitsVal (c :: cs) 0 with
    | some n => inRange (Int.ofNat n)
    | none => none

/-- `unwrapJSONNumber` (utils.go, fix 8b0989b): only a top-level json.Number is unwrapped -/
def unwrapJSONNumber : JV → Val
  | .num t f =>
    match parseInt64 t with
    | some n => .int "i64" n
    | none => if f ≠ "" then .float "f64" f else .str t
  | v => v.toVal

mutual
/-- `fmt.Sprintf("%v", v)` -/
def JV.fmtV : JV → String
  | .null => "<nil>"
  | .bool b => if b then "true" else "false"
  | .num t _ => t
  | .str s => s
  | .arr xs => "[" ++ " ".intercalate (JV.fmtVList xs) ++ "]"
  | .obj kvs => "map[" ++ " ".intercalate (JV.fmtVMembers kvs) ++ "]"
def JV.fmtVList : List JV → List String
  | [] => []
  | x :: xs => JV.fmtV x :: JV.fmtVList xs
def JV.fmtVMembers : List (String × JV) → List String
  | [] => []
  | (k, v) :: t => (k ++ ":" ++ JV.fmtV v) :: JV.fmtVMembers t
end

/-! ### utils.go, tools/regexp.go -/

def splitLinesAux : List Char → List Char → List String
  | [], cur => [String.ofList cur.reverse]
  | c :: cs, cur => if c = '\n' then String.ofList cur.reverse :: splitLinesAux cs [] else splitLinesAux cs (c :: cur)

/-- `schemaComments`: `strings.Split(description, "\n")` without the empty lines -/
def schemaComments (description : String) : List String :=
  (splitLinesAux description.toList []).filter (· ≠ "")

def regexMeta : List Char := ['.', '+', '*', '?', '(', ')', '|', '[', ']', '{', '}']

/-- `tools.RegexMatchesConstantString` -/
def regexMatchesConstantString (regex : String) : Bool :=
  match regex.toList with
  | [] => false
  | c :: cs =>
    c == '^' && (c :: cs).getLast? == some '$' && !((c :: cs).any fun x => regexMeta.contains x)

/-- `tools.ConstantStringFromRegex`: `regex[1 : len(regex)-1]` -/
def constantStringFromRegex (regex : String) : String :=
  String.ofList ((regex.toList.drop 1).dropLast)

/-! ### generator state and outcome plumbing -/

structure St where
  seen : List String := []
  objects : Objects := []
  deriving Inhabited

def obind {α β} (x : Outcome α) (f : α → Outcome β) : Outcome β :=
  match x with
  | .ok a => f a
  | .err e => .err e
  | .panic s => .panic s

theorem obind_ok {α β} {x : Outcome α} {f : α → Outcome β} {b : β} (h : obind x f = .ok b) :
    ∃ a, x = .ok a ∧ f a = .ok b := by
  cases x with
  | ok a => exact ⟨a, rfl, h⟩
  | err e => simp [obind] at h
  | panic s => simp [obind] at h

abbrev Walk := JS → St → Outcome (Ty × St)

def m0 : Meta := {}
def anyTy : Ty := .scalar "any" .nil [] m0
def nullTy : Ty := .scalar "null" .nil [] m0
def stringTy : Ty := .scalar "string" .nil [] m0

/-! ### the walk* functions (generator.go), each parameterised by the recursive call `w` -/

/-- `walkScalarDisjunction` -/
def scalarBranches : List String → Outcome (List Ty)
  | [] => .ok []
  | t :: ts =>
    let k : Option String :=
      if t = "null" then some "null" else if t = "boolean" then some "bool"
      else if t = "string" then some "string" else if t = "number" then some "float64"
      else if t = "integer" then some "int64" else none
    match k with
    | none => .err "unexpected type in scalar disjunction"
    | some k => obind (scalarBranches ts) fun bs => .ok (.scalar k .nil [] m0 :: bs)

/-- `walkDisjunctionBranches` (also the loop of `walkAllOf`) -/
def walkBranches (w : Walk) : List JS → St → Outcome (List Ty × St)
  | [], st => .ok ([], st)
  | s :: ss, st =>
    obind (w s st) fun r =>
      obind (walkBranches w ss r.2) fun rs => .ok (r.1 :: rs.1, rs.2)

/-- `walkUntypedConstant` -/
def walkUntypedConstant (c : JV) : Outcome Ty :=
  match c with
  | .num t f =>
    match parseInt64 t with
    | some n => .ok (.scalar "int64" (.int "i64" n) [] m0)
    | none => if f ≠ "" then .ok (.scalar "float64" (.float "f64" f) [] m0) else .err "could not parse json.Number"
  | .bool b => .ok (.scalar "bool" (.bool b) [] m0)
  | .str s => .ok (.scalar "string" (.str s) [] m0)
  | .null => .ok nullTy
  | _ => .err "unhandled constant type"

/-- "we only want to deal with string or int enums": the kind of every member is decided by the first value -/
def enumKindOf : JV → String
  | .str _ => "string"
  | _ => "int64"

/-- `walkEnum` -/
def walkEnum (vals : List JV) : Outcome Ty :=
  match vals with
  | [] => .err "enum with no values"
  | v0 :: _ =>
    let k := enumKindOf v0
    .ok (.enum (vals.map fun v => { name := v.fmtV, value := unwrapJSONNumber v, kind := k }) m0)

def constVal (a : JAttrs) : Val :=
  match a.const with
  | some c => c.toVal
  | none => .nil

def stringHints (a : JAttrs) : List (String × Val) :=
  if a.format = "date-time" then [("string_format_datetime", .bool true)] else []

def stringConstraints (a : JAttrs) : List Constraint :=
  (if a.minLength ≠ -1 then [{ op := "minLength", args := [.int "i" a.minLength] }] else []) ++
  (if a.maxLength ≠ -1 then [{ op := "maxLength", args := [.int "i" a.maxLength] }] else [])

def stringValue (a : JAttrs) : Val :=
  match a.pattern with
  | some p => if regexMatchesConstantString p then .str (constantStringFromRegex p) else constVal a
  | none => constVal a

/-- `walkString` -/
def walkString (a : JAttrs) : Ty :=
  .scalar "string" (stringValue a) (stringConstraints a) { dflt := a.dflt.toVal, hints := stringHints a }

/-- `walkBool` -/
def walkBool (a : JAttrs) : Ty :=
  .scalar "bool" (constVal a) [] { dflt := a.dflt.toVal }

def boundConstraint (op : String) : Option Bound → List Constraint
  | some b => [{ op := op, args := [.float "f64" b.f64] }]
  | none => []

def numberKind (t0 : String) : String := if t0 = "number" then "float64" else "int64"

def numberValue (a : JAttrs) : Val := match a.const with | some c => unwrapJSONNumber c | none => .nil

def numberConstraints (a : JAttrs) : List Constraint :=
  boundConstraint ">=" a.minimum ++ boundConstraint ">" a.exclMinimum ++
  boundConstraint "<=" a.maximum ++ boundConstraint "<" a.exclMaximum

/-- `walkNumber` -/
def walkNumber (a : JAttrs) (t0 : String) : Ty :=
  .scalar (numberKind t0) (numberValue a) (numberConstraints a) { dflt := unwrapJSONNumber a.dflt }

/-- `walkList` -/
def walkArray (w : Walk) (a : JAttrs) (items items2020 : JItems) (st : St) : Outcome (Ty × St) :=
  let arr (e : Ty) : Ty := .array e { dflt := a.dflt.toVal }
  match items2020 with
  | .one s2 => obind (w s2 st) fun r => .ok (arr r.1, r.2)
  | .tuple _ => .err "model: Items2020 is a single schema"
  | .none =>
    match items with
    | .none => .ok (arr anyTy, st)
    | .one s1 => obind (w s1 st) fun r => .ok (arr r.1, r.2)
    | .tuple _ => .err "unsupported form of 'items' (tuple validation)"

/-- the loop of `walkObject` over `schema.Properties` -/
def walkProps (w : Walk) (required : List String) : List (String × JS) → St → Outcome (List Field × St)
  | [], st => .ok ([], st)
  | (name, s) :: rest, st =>
    obind (w s st) fun r =>
      obind (walkProps w required rest r.2) fun rs =>
        .ok ({ name := name, ty := r.1, required := required.contains name,
               comments := schemaComments s.attrs.description } :: rs.1, rs.2)

/-! Sorting.  Go's `sort.Slice` / `sort.Sort` are unspecified algorithms; the keys sorted here (struct field
    names, object names) are unique (map keys), so every correct sort returns the same list.  The model uses an
    insertion sort: structurally recursive, hence evaluated by the kernel (`List.mergeSort` is not). -/

def insertSorted {α} (le : α → α → Bool) (x : α) : List α → List α
  | [] => [x]
  | y :: ys => if le x y then x :: y :: ys else y :: insertSorted le x ys

def isort {α} (le : α → α → Bool) : List α → List α
  | [] => []
  | x :: xs => insertSorted le x (isort le xs)

theorem insertSorted_perm {α} (le : α → α → Bool) (x : α) : ∀ l : List α, (insertSorted le x l).Perm (x :: l)
  | [] => List.Perm.refl _
  | y :: ys => by
    simp only [insertSorted]
    split
    · exact List.Perm.refl _
    · exact ((insertSorted_perm le x ys).cons y).trans (List.Perm.swap x y ys)

theorem isort_perm {α} (le : α → α → Bool) : ∀ l : List α, (isort le l).Perm l
  | [] => List.Perm.refl _
  | x :: xs => (insertSorted_perm le x _).trans ((isort_perm le xs).cons x)

theorem isort_of_pairwise {α} (le : α → α → Bool) : ∀ {l : List α}, l.Pairwise (fun a b => le a b = true) → isort le l = l
  | [], _ => rfl
  | x :: xs, h => by
    rw [List.pairwise_cons] at h
    simp only [isort, isort_of_pairwise le h.2]
    cases xs with
    | nil => rfl
    | cons y ys => simp [insertSorted, h.1 y (by simp)]

/-- `sort.Slice(fields, Name <)` (names are map keys: unique) -/
def sortFields (fs : List Field) : List Field := isort (fun a b => !(b.name < a.name)) fs

/-- `walkObject` -/
def walkObject (w : Walk) (a : JAttrs) (props : List (String × JS)) (addl : JAddl) (st : St) : Outcome (Ty × St) :=
  if props.isEmpty then
    match addl with
    | .none => .ok (anyTy, st)
    | .bool _ => .ok (anyTy, st)
    | .schema s => obind (w s st) fun r => .ok (.map stringTy r.1 m0, r.2)
  else obind (walkProps w a.required props st) fun r => .ok (.struct (sortFields r.1) [] none m0, r.2)

/-- `declareDefinition` -/
def declare (w : Walk) (pkg name : String) (target : JS) (st : St) : Outcome St :=
  if st.seen.contains name then .ok st
  else
    obind (w target { st with seen := name :: st.seen }) fun r =>
      .ok { r.2 with objects := rset name { name := name, ty := r.1, selfPkg := pkg, selfName := name } r.2.objects }

/-- `walkRef` -/
def walkRef (w : Walk) (pkg : String) (defs : Defs) (name : String) (st : St) : Outcome (Ty × St) :=
  match lookupDef defs name with
  | none => .err "model: reference to a schema that is not in the definition table"
  | some target => obind (declare w pkg name target st) fun st' => .ok (.ref pkg name m0, st')

/-- `schema.AdditionalProperties == nil` -/
def addlIsNone : JAddl → Bool | .none => true | _ => false

/-- `walkDefinition` -/
def walkDefinition (pkg : String) (defs : Defs) : Nat → JS → St → Outcome (Ty × St)
  | 0, _, _ => .err "fuel"
  | fuel + 1, .mk a oneOf anyOf allOf props addl items items2020, st =>
    let w := walkDefinition pkg defs fuel
    match a.ref with
    | some name => walkRef w pkg defs name st
    | none =>
    if a.hasOneOf then
      (if oneOf.isEmpty then .err "oneOf with no branches"
       else obind (walkBranches w oneOf st) fun r => .ok (.disj r.1 {} m0, r.2))
    else if a.hasAnyOf then
      (if anyOf.isEmpty then .err "anyOf with no branches"
       else obind (walkBranches w anyOf st) fun r => .ok (.disj r.1 {} m0, r.2))
    else if a.hasAllOf then obind (walkBranches w allOf st) fun r => .ok (.inter r.1 m0, r.2)
    else
    match a.enum with
    | some vals => obind (walkEnum vals) fun t => .ok (t, st)
    | none =>
    match a.types with
    | [] =>
      if a.hasProps || a.hasPatternProps || !addlIsNone addl then
        walkObject w a props addl st
      else
        (match a.const with
         | some c => obind (walkUntypedConstant c) fun t => .ok (t, st)
         | none => .ok (anyTy, st))
    | [t] =>
      if t = "null" then .ok (nullTy, st)
      else if t = "boolean" then .ok (walkBool a, st)
      else if t = "string" then .ok (walkString a, st)
      else if t = "object" then walkObject w a props addl st
      else if t = "number" ∨ t = "integer" then .ok (walkNumber a t, st)
      else if t = "array" then walkArray w a items items2020 st
      else .err "unexpected schema type"
    | ts => obind (scalarBranches ts) fun bs => .ok (.disj bs {} m0, st)

/-! ### GenerateAST -/

def hintSet (k : String) (v : Val) : List (String × Val) → List (String × Val)
  | [] => [(k, v)]
  | (k', v') :: rest =>
    if k = k' then (k, v) :: rest
    else if k < k' then (k, v) :: (k', v') :: rest
    else (k', v') :: hintSet k v rest

def setVariantHint (variant : String) (o : Obj) : Obj :=
  { o with ty := o.ty.setMeta { o.ty.getMeta with hints := hintSet "implements_variant" (.str variant) o.ty.getMeta.hints } }

/-- `Objects.Sort(orderedmap.SortStrings)` -/
def sortObjects (os : Objects) : Objects := isort (fun a b => !(b.1 < a.1)) os

/-- name of the object the root is declared under -/
def rootName (pkg : String) (root : JS) : String := root.attrs.ref.getD pkg

/-- `GenerateAST` after `compiler.Compile`: `root` is the compiled document, `defs` the targets of
    every `$ref` by name.  Returns one schema. -/
def generateAST (pkg : String) (smeta : SchemaMeta) (defs : Defs) (fuel : Nat) (root : JS) : Outcome Schema :=
  let w := walkDefinition pkg defs fuel
  let name := rootName pkg root
  let declared : Outcome St :=
    match root.attrs.ref with
    | none => declare w pkg pkg root {}
    | some r =>
      match lookupDef defs r with
      | none => .err "model: reference to a schema that is not in the definition table"
      | some target => declare w pkg r target {}
  obind declared fun st =>
    let objects :=
      if smeta.variant ≠ "" then
        match rget name st.objects with
        | some o => rset name (setVariantHint smeta.variant o) st.objects
        | none => st.objects
      else st.objects
    let ept : Ty :=
      match rget name objects with
      | some o => .ref o.selfPkg o.selfName m0
      | none => .ref "" "" m0
    .ok { pkg := pkg, smeta := smeta, entryPoint := name, entryPointType := ept, objects := sortObjects objects }

/-- the front-end as a function to schema sets (what the passes and `srcDen` take) -/
def frontEnd (pkg : String) (defs : Defs) (fuel : Nat) (root : JS) : Outcome Schemas :=
  obind (generateAST pkg {} defs fuel root) fun s => .ok [s]

/-- a root that is a reference to definition `name` (`{"$ref": "#/definitions/<name>", "definitions": …}`) -/
def refTo (name : String) : JS := .mk { ref := some name } [] [] [] [] .none .none .none

end Cog.Front.JsonSchema
