/-
  C01 (b) — one-level view of a schema node of the fragment together with the type the generator builds
  for it: `view_of : frag defs pair s → Builds pkg defs s T → View pkg defs pair s T`.  All the unfolding of
  `frag` and `walkDefinition` happens here, once; the semantic lemmas (Cog/Front/JsonSchemaSound.lean) only
  do `cases` on a `View`.  Children are described by their own `frag` / `Builds` facts (the view is not
  recursive: the soundness induction is on the fuel of `jsv`).
-/
import Cog.Front.JsonSchemaInv
import Cog.Front.JsonSchemaFrag
namespace Cog.Front.JsonSchema
open Cog.IR Cog.Sem

/-- the fields `walkProps` builds, property by property -/
inductive FieldsBuilt (pkg : String) (defs : Defs) (req : List String) : List (String × JS) → List Field → Prop
  | nil : FieldsBuilt pkg defs req [] []
  | cons {p : String × JS} {f : Field} {ps : List (String × JS)} {fs : List Field} :
      (f.name = p.1 ∧ f.required = req.contains p.1 ∧ Builds pkg defs p.2 f.ty) →
      FieldsBuilt pkg defs req ps fs → FieldsBuilt pkg defs req (p :: ps) (f :: fs)

inductive View (pkg : String) (defs : Defs) (pair : Bool) : JS → Ty → Prop
  | ref {a oneOf anyOf allOf props addl items items2020} (name : String) (t : JS) :
      a.ref = some name → lookupDef defs name = some t → targetOK t = true →
      View pkg defs pair (.mk a oneOf anyOf allOf props addl items items2020) (.ref pkg name m0)
  | union {a oneOf anyOf allOf props addl items items2020} (bs : List JS) (x y : JS) (Tx Ty : Ty) :
      a.ref = none → pair = true →
      ((a.hasOneOf = true ∧ bs = oneOf) ∨ (a.hasOneOf = false ∧ a.hasAnyOf = true ∧ bs = anyOf)) →
      bs = [x, y] → (isNullS x != isNullS y) = true →
      (isNullS x = true ∨ (frag defs false x = true ∧ refToColl defs x = false)) →
      (isNullS y = true ∨ (frag defs false y = true ∧ refToColl defs y = false)) →
      Builds pkg defs x Tx → Builds pkg defs y Ty →
      View pkg defs pair (.mk a oneOf anyOf allOf props addl items items2020) (.disj [Tx, Ty] {} m0)
  | enum {a oneOf anyOf allOf props addl items items2020} (vs : List JV) (T : Ty) :
      a.ref = none → a.enum = some vs → enumValsOK vs = true → walkEnum vs = .ok T →
      View pkg defs pair (.mk a oneOf anyOf allOf props addl items items2020) T
  | any {a oneOf anyOf allOf props addl items items2020} :
      a.ref = none → jsIsAny (.mk a oneOf anyOf allOf props addl items items2020) = true →
      View pkg defs pair (.mk a oneOf anyOf allOf props addl items items2020) anyTy
  | const {a oneOf anyOf allOf props addl items items2020} (c : JV) (T : Ty) :
      a.ref = none → a.enum = none → a.types = [] → a.const = some c → untypedConstOK a addl = true →
      walkUntypedConstant c = .ok T →
      View pkg defs pair (.mk a oneOf anyOf allOf props addl items items2020) T
  | bool {a oneOf anyOf allOf props addl items items2020} :
      a.ref = none → a.enum = none → a.types = ["boolean"] →
      View pkg defs pair (.mk a oneOf anyOf allOf props addl items items2020) (walkBool a)
  | string {a oneOf anyOf allOf props addl items items2020} :
      a.ref = none → a.enum = none → a.types = ["string"] → a.pattern = none →
      View pkg defs pair (.mk a oneOf anyOf allOf props addl items items2020) (walkString a)
  | number {a oneOf anyOf allOf props addl items items2020} (t : String) :
      a.ref = none → a.enum = none → a.types = [t] → (t = "number" ∨ t = "integer") →
      View pkg defs pair (.mk a oneOf anyOf allOf props addl items items2020) (walkNumber a t)
  | arrayAny {a oneOf anyOf allOf props addl items items2020} :
      a.ref = none → a.enum = none → noCombinator a = true → a.types = ["array"] → items = .none → items2020 = .none →
      View pkg defs pair (.mk a oneOf anyOf allOf props addl items items2020) (.array anyTy { dflt := a.dflt.toVal })
  | arrayOf {a oneOf anyOf allOf props addl items items2020} (e : JS) (Te : Ty) :
      a.ref = none → a.enum = none → noCombinator a = true → a.types = ["array"] →
      ((items = .one e ∧ items2020 = .none) ∨ (items = .none ∧ items2020 = .one e)) →
      frag defs true e = true → Builds pkg defs e Te →
      View pkg defs pair (.mk a oneOf anyOf allOf props addl items items2020) (.array Te { dflt := a.dflt.toVal })
  | mapOf {a oneOf anyOf allOf props addl items items2020} (e : JS) (Te : Ty) :
      a.ref = none → a.enum = none → noCombinator a = true → a.types = ["object"] → props = [] → addl = .schema e →
      frag defs true e = true → Builds pkg defs e Te →
      View pkg defs pair (.mk a oneOf anyOf allOf props addl items items2020) (.map stringTy Te m0)
  | struct {a oneOf anyOf allOf props addl items items2020} (fs : List Field) :
      a.ref = none → a.enum = none → a.types = ["object"] → props ≠ [] → addl = .bool false →
      sortedKeys props = true → fragProps defs a.required props = true →
      FieldsBuilt pkg defs a.required props fs →
      View pkg defs pair (.mk a oneOf anyOf allOf props addl items items2020) (.struct fs [] none m0)
  | typeArr {a oneOf anyOf allOf props addl items items2020} (t1 t2 : String) (bs : List Ty) :
      a.ref = none → pair = true → a.enum = none → a.types = [t1, t2] →
      ((t1 = "null" ∧ scalarTypeName t2 = true) ∨ (t2 = "null" ∧ scalarTypeName t1 = true)) →
      scalarBranches [t1, t2] = .ok bs →
      View pkg defs pair (.mk a oneOf anyOf allOf props addl items items2020) (.disj bs {} m0)

/-! ### inversion of the helpers -/

theorem walkProps_built {pkg defs} {k : Nat} (req : List String) :
    ∀ (ps : List (String × JS)) (st : St) (fs : List Field) (st' : St),
    walkProps (walkDefinition pkg defs k) req ps st = .ok (fs, st') → FieldsBuilt pkg defs req ps fs
  | [], st, fs, st', h => by
    simp [walkProps] at h
    obtain ⟨h1, _⟩ := h; subst h1
    exact FieldsBuilt.nil
  | (name, s) :: ps, st, fs, st', h => by
    simp only [walkProps] at h
    obtain ⟨⟨T1, st1⟩, h1, h2⟩ := obind_ok h
    obtain ⟨⟨fs2, st2⟩, h3, h4⟩ := obind_ok h2
    simp only [Outcome.ok.injEq, Prod.mk.injEq] at h4
    obtain ⟨h5, _⟩ := h4; subst h5
    exact FieldsBuilt.cons ⟨rfl, rfl, ⟨k, st, st1, h1⟩⟩ (walkProps_built req ps st1 fs2 st2 h3)

theorem sortedKeys_pairwise {pkg defs req} : ∀ {ps : List (String × JS)} {fs : List Field},
    sortedKeys ps = true → FieldsBuilt pkg defs req ps fs →
    fs.Pairwise (fun a b => (!decide (b.name < a.name)) = true)
  | [], _, _, hb => by cases hb; exact List.Pairwise.nil
  | (k, s) :: ps, _, hs, hb => by
    cases hb with
    | cons hf hrest =>
      rename_i f fs
      simp only [sortedKeys, Bool.and_eq_true, List.all_eq_true] at hs
      refine List.Pairwise.cons ?_ (sortedKeys_pairwise hs.2 hrest)
      intro b hbm
      -- b corresponds to some property of ps
      have : ∀ {ps : List (String × JS)} {fs : List Field}, FieldsBuilt pkg defs req ps fs → ∀ b ∈ fs, ∃ p ∈ ps, b.name = p.1 := by
        intro ps fs h
        induction h with
        | nil => intro b hb; cases hb
        | cons hx _ ih =>
          intro b hb
          simp only [List.mem_cons] at hb
          cases hb with
          | inl e => subst e; exact ⟨_, by simp, hx.1⟩
          | inr e => obtain ⟨p, hp, hn⟩ := ih b e; exact ⟨p, List.mem_cons_of_mem _ hp, hn⟩
      obtain ⟨p, hp, hn⟩ := this hrest b hbm
      have := hs.1 p hp
      simp only [Bool.and_eq_true, decide_eq_true_eq, Bool.not_eq_true', decide_eq_false_iff_not] at this
      rw [hf.1, hn]
      simp [this.2]

theorem sortFields_id {pkg defs req} {ps : List (String × JS)} {fs : List Field}
    (hs : sortedKeys ps = true) (hb : FieldsBuilt pkg defs req ps fs) : sortFields fs = fs :=
  isort_of_pairwise _ (sortedKeys_pairwise hs hb)

theorem fragBranches_two {defs : Defs} {x y : JS} (h : fragBranches defs [x, y] = true) :
    (isNullS x = true ∨ (frag defs false x = true ∧ refToColl defs x = false)) ∧
    (isNullS y = true ∨ (frag defs false y = true ∧ refToColl defs y = false)) := by
  simp only [fragBranches, Bool.and_eq_true, Bool.or_eq_true, Bool.not_eq_true', Bool.and_true] at h
  exact ⟨h.1, h.2⟩

theorem walkBranches_two {pkg defs} {k : Nat} {x y : JS} {st : St} {Ts : List Ty} {st' : St}
    (h : walkBranches (walkDefinition pkg defs k) [x, y] st = .ok (Ts, st')) :
    ∃ Tx Ty, Ts = [Tx, Ty] ∧ Builds pkg defs x Tx ∧ Builds pkg defs y Ty := by
  simp only [walkBranches] at h
  obtain ⟨⟨T1, st1⟩, h1, h2⟩ := obind_ok h
  obtain ⟨⟨Ts2, st2⟩, h3, h4⟩ := obind_ok h2
  obtain ⟨⟨T2, st3⟩, h5, h6⟩ := obind_ok h3
  simp only [obind, Outcome.ok.injEq, Prod.mk.injEq] at h6 h4
  obtain ⟨e1, _⟩ := h6
  obtain ⟨e2, _⟩ := h4
  subst e1; subst e2
  exact ⟨T1, T2, rfl, ⟨k, st, st1, h1⟩, ⟨k, st1, st3, h5⟩⟩

theorem pairShape_two {bs : List JS} (h : pairShape bs = true) : ∃ x y, bs = [x, y] ∧ (isNullS x != isNullS y) = true := by
  match bs, h with
  | [x, y], h => exact ⟨x, y, rfl, by simpa [pairShape] using h⟩

/-! ### the view -/

theorem view_of (pkg : String) (defs : Defs) (pair : Bool) (s : JS) (T : Ty)
    (hf : frag defs pair s = true) (hb : Builds pkg defs s T) : View pkg defs pair s T := by
  obtain ⟨k, st, st', hw⟩ := hb
  cases k with
  | zero => simp [walkDefinition] at hw
  | succ k =>
  cases s with
  | mk a oneOf anyOf allOf props addl items items2020 =>
  rw [frag] at hf
  unfold walkDefinition at hw
  simp only at hw
  simp only [Bool.and_eq_true] at hf
  obtain ⟨_, hf⟩ := hf
  cases hr : a.ref with
  | some name =>
    simp only [hr] at hf hw
    unfold refOK at hf
    cases hl : lookupDef defs name with
    | none => simp [hl] at hf
    | some t =>
      simp only [hl] at hf
      unfold walkRef at hw
      simp only [hl] at hw
      obtain ⟨st2, _, h2⟩ := obind_ok hw
      simp at h2
      obtain ⟨e, _⟩ := h2; subst e
      exact View.ref name t hr hl hf
  | none =>
    simp only [hr] at hf hw
    have union : ∀ bs : List JS,
        ((a.hasOneOf = true ∧ bs = oneOf) ∨ (a.hasOneOf = false ∧ a.hasAnyOf = true ∧ bs = anyOf)) →
        (pair && pairShape bs && fragBranches defs bs) = true →
        (∃ msg : String, (if bs.isEmpty = true then Outcome.err msg else
            obind (walkBranches (walkDefinition pkg defs k) bs st) fun r => Outcome.ok (Ty.disj r.1 {} m0, r.2)) = .ok (T, st')) →
        View pkg defs pair (.mk a oneOf anyOf allOf props addl items items2020) T := by
      intro bs hwhich hfr hw
      simp only [Bool.and_eq_true] at hfr
      obtain ⟨⟨hp, hsh⟩, hbr⟩ := hfr
      obtain ⟨x, y, e, hxy⟩ := pairShape_two hsh
      subst e
      have hw' : (obind (walkBranches (walkDefinition pkg defs k) [x, y] st) fun r => Outcome.ok (Ty.disj r.1 {} m0, r.2)) = .ok (T, st') := by
        obtain ⟨msg, hw⟩ := hw
        simpa using hw
      obtain ⟨⟨Ts, st1⟩, h1, h2⟩ := obind_ok hw'
      simp at h2
      obtain ⟨e, _⟩ := h2; subst e
      obtain ⟨Tx, Ty, e, bx, by'⟩ := walkBranches_two h1
      subst e
      obtain ⟨fx, fy⟩ := fragBranches_two hbr
      exact View.union [x, y] x y Tx Ty hr hp hwhich rfl hxy fx fy bx by'
    by_cases h1 : a.hasOneOf = true
    · simp only [h1, if_true] at hf hw
      exact union oneOf (Or.inl ⟨h1, rfl⟩) hf ⟨_, hw⟩
    · have h1' : a.hasOneOf = false := by simpa using h1
      simp only [h1', Bool.false_eq_true, if_false] at hf hw
      by_cases h2 : a.hasAnyOf = true
      · simp only [h2, if_true] at hf hw
        exact union anyOf (Or.inr ⟨h1', h2, rfl⟩) hf ⟨_, hw⟩
      · have h2' : a.hasAnyOf = false := by simpa using h2
        simp only [h2', Bool.false_eq_true, if_false] at hf hw
        by_cases h3 : a.hasAllOf = true
        · simp [h3] at hf
        · have h3' : a.hasAllOf = false := by simpa using h3
          simp only [h3', Bool.false_eq_true, if_false] at hf hw
          cases he : a.enum with
          | some vs =>
            simp only [he] at hf hw
            obtain ⟨T0, h4, h5⟩ := obind_ok hw
            simp at h5
            obtain ⟨e, _⟩ := h5; subst e
            exact View.enum vs T0 hr he hf h4
          | none =>
            simp only [he] at hf hw
            have hnc : noCombinator a = true := by simp [noCombinator, hr, h1', h2', h3', he]
            cases ht : a.types with
            | nil =>
              simp only [ht] at hf hw
              simp only [Bool.or_eq_true] at hf
              cases hf with
              | inl hany =>
                have hany' := hany
                simp only [jsIsAny, Bool.and_eq_true, Bool.or_eq_true, Bool.not_eq_true'] at hany'
                have hT : T = anyTy := by
                  cases hany'.2 with
                  | inl hx =>
                    simp only [hx.1.2, Bool.false_eq_true, if_false] at hw
                    have hc : a.const = none := by simpa using hx.2
                    simp [hc] at hw
                    exact hw.1.symm
                  | inr hx =>
                    have hop : objectPath a addl = true := hx.1.1
                    simp only [objectPath, ht, List.isEmpty_nil, Bool.true_and, Bool.or_eq_true] at hop
                    have hop' : (a.hasProps || a.hasPatternProps || !addlIsNone addl) = true := by
                      cases hop with
                      | inl h => simp at h
                      | inr h => simpa using h
                    simp only [hop', if_true] at hw
                    unfold walkObject at hw
                    simp only [hx.1.2, if_true] at hw
                    cases addl with
                    | none => simp at hw; exact hw.1.symm
                    | bool b => simp at hw; exact hw.1.symm
                    | schema s => simp [addlIsSchema] at hx
                subst hT
                exact View.any hr hany
              | inr hconst =>
                have hc' := hconst
                simp only [untypedConstOK, Bool.and_eq_true, Bool.not_eq_true'] at hc'
                simp only [hc'.1, Bool.false_eq_true, if_false] at hw
                cases hc : a.const with
                | none => simp [hc] at hc'
                | some c =>
                  simp only [hc] at hw
                  obtain ⟨T0, h4, h5⟩ := obind_ok hw
                  simp at h5
                  obtain ⟨e, _⟩ := h5; subst e
                  exact View.const c T0 hr he ht hc hconst h4
            | cons t ts =>
              cases ts with
              | nil =>
                simp only [ht] at hf hw
                by_cases e1 : t = "boolean"
                · subst e1
                  simp at hw
                  obtain ⟨e, _⟩ := hw; subst e
                  exact View.bool hr he ht
                · by_cases e2 : t = "number"
                  · subst e2
                    simp at hw
                    obtain ⟨e, _⟩ := hw; subst e
                    exact View.number "number" hr he ht (Or.inl rfl)
                  · by_cases e3 : t = "integer"
                    · subst e3
                      simp at hw
                      obtain ⟨e, _⟩ := hw; subst e
                      exact View.number "integer" hr he ht (Or.inr rfl)
                    · simp only [e1, e2, e3, or_self, if_false] at hf
                      by_cases e4 : t = "string"
                      · subst e4
                        simp at hw hf
                        obtain ⟨e, _⟩ := hw; subst e
                        exact View.string hr he ht hf
                      · simp only [e4, if_false] at hf
                        by_cases e5 : t = "array"
                        · subst e5
                          simp only [if_true, Bool.and_eq_true, Bool.or_eq_true] at hf
                          simp at hw
                          unfold walkArray at hw
                          obtain ⟨⟨hi1, hi2⟩, hnone⟩ := hf
                          cases items2020 with
                          | tuple _ => simp [fragItem] at hi2
                          | one s2 =>
                            cases items with
                            | none =>
                              simp only at hw
                              obtain ⟨⟨T1, st1⟩, h4, h5⟩ := obind_ok hw
                              simp at h5
                              obtain ⟨e, _⟩ := h5; subst e
                              exact View.arrayOf s2 T1 hr he hnc ht (Or.inr ⟨rfl, rfl⟩) (by simpa [fragItem] using hi2) ⟨k, st, st1, h4⟩
                            | one _ => simp [itemsIsNone] at hnone
                            | tuple _ => simp [itemsIsNone] at hnone
                          | none =>
                            cases items with
                            | none =>
                              simp at hw
                              obtain ⟨e, _⟩ := hw; subst e
                              exact View.arrayAny hr he hnc ht rfl rfl
                            | one s1 =>
                              simp only at hw
                              obtain ⟨⟨T1, st1⟩, h4, h5⟩ := obind_ok hw
                              simp at h5
                              obtain ⟨e, _⟩ := h5; subst e
                              exact View.arrayOf s1 T1 hr he hnc ht (Or.inl ⟨rfl, rfl⟩) (by simpa [fragItem] using hi1) ⟨k, st, st1, h4⟩
                            | tuple _ => simp [fragItem] at hi1
                        · simp only [e5, if_false] at hf
                          by_cases e6 : t = "object"
                          · subst e6
                            simp only [if_true] at hf
                            simp at hw
                            unfold walkObject at hw
                            by_cases hpe : props.isEmpty = true
                            · simp only [hpe, if_true] at hf hw
                              have hp0 : props = [] := by simpa using hpe
                              cases addl with
                              | none =>
                                simp at hw
                                obtain ⟨e, _⟩ := hw; subst e
                                exact View.any hr (by simp [jsIsAny, noCombinator, hr, h1', h2', h3', he, objectPath, ht, hpe, addlIsSchema])
                              | bool b =>
                                simp at hw
                                obtain ⟨e, _⟩ := hw; subst e
                                exact View.any hr (by simp [jsIsAny, noCombinator, hr, h1', h2', h3', he, objectPath, ht, hpe, addlIsSchema])
                              | schema s =>
                                simp only at hw
                                obtain ⟨⟨T1, st1⟩, h4, h5⟩ := obind_ok hw
                                simp at h5
                                obtain ⟨e, _⟩ := h5; subst e
                                exact View.mapOf s T1 hr he hnc ht hp0 rfl (by simpa [fragAddl] using hf) ⟨k, st, st1, h4⟩
                            · simp only [hpe, if_false, Bool.false_eq_true] at hf hw
                              simp only [Bool.and_eq_true] at hf
                              obtain ⟨⟨ha, hsk⟩, hfp⟩ := hf
                              have haddl : addl = .bool false := by
                                cases addl with
                                | none => simp [addlIsFalse] at ha
                                | schema _ => simp [addlIsFalse] at ha
                                | bool b => cases b <;> simp [addlIsFalse] at ha ⊢
                              obtain ⟨⟨fs, st1⟩, h4, h5⟩ := obind_ok hw
                              simp at h5
                              obtain ⟨e, _⟩ := h5; subst e
                              have hbuilt := walkProps_built a.required props st fs st1 h4
                              rw [sortFields_id hsk hbuilt]
                              exact View.struct fs hr he ht (by intro c; simp [c] at hpe) haddl hsk hfp hbuilt
                          · simp [e6] at hf
              | cons t2 ts2 =>
                cases ts2 with
                | nil =>
                  simp only [ht] at hf hw
                  simp only [Bool.and_eq_true, Bool.or_eq_true, decide_eq_true_eq] at hf
                  obtain ⟨hp, hshape⟩ := hf
                  obtain ⟨bs, h4, h5⟩ := obind_ok hw
                  simp at h5
                  obtain ⟨e, _⟩ := h5; subst e
                  exact View.typeArr t t2 bs hr hp he ht hshape h4
                | cons _ _ => simp [ht] at hf

end Cog.Front.JsonSchema
