/-
  C01 (b), OpenAPI — parser soundness: the induction (`sound_core`) and the theorem about `frontEnd` (`parser_sound`).
-/
import Cog.Front.OpenApiSound
namespace Cog.Front.OpenApi
open Cog.IR Cog.Sem Cog.Sem.Src Cog.Passes
open Cog.Front.JsonSchema (m0 anyTy stringTy xden_array_step xden_map_step xden_struct_step xden_enum_step xden_any_step
  xden_scalar_plain xden_scalar_dt null_scalar xden_nullable wfDeep_obj wfDeep_member wfDeep_obj_mem wfDeep_arr_mem
  denScalar_string denScalar_bool denScalar_int64 constOK_of)

/-! ### `type` -/

theorem typeIs_types {a : OAttrs} {t : String} (h : typeIs a t = true) : a.types = some [t] := by
  unfold typeIs at h
  split at h
  · rename_i t0 e; simp only [decide_eq_true_eq] at h; subst h; exact e
  · cases h

theorem permits_of_typeIs {a : OAttrs} {t t' : String} (h : typeIs a t = true) : permits a t' = decide (t' = t) := by
  simp only [permits, typeIs_types h]
  by_cases e : t' = t
  · subst e; simp
  · have e' : ¬ t = t' := fun c => e c.symm
    simp [e, e']

theorem permitsNull_of_typeIs {a : OAttrs} {t : String} (h : typeIs a t = true) (hne : t ≠ "null") : permitsNull a = a.nullable := by
  simp [permitsNull, typeIs_types h]
  intro c; exact absurd c.symm hne

theorem denScalar_int32 (q : Int) (h4 : q % 4 = 0) (hr : inInt32 (q / 4) = true) : denScalar "int32" (.num q) = true := by
  simp only [inInt32, decide_eq_true_eq] at hr
  simp [denScalar, intRange, h4, hr.1, hr.2]

/-! ### one level of `oav` -/

theorem oav_plain {fmt cs n ref hv d v j} (hr : isRef ref = false) (hhv : hv = true)
    (h : oav true fmt cs (n + 1) (.mk ref hv d v) j = true) : oavBody true fmt (oav true fmt cs n) v j = true := by
  rw [oav] at h
  simpa [hr, hhv] using h

theorem oav_ref {fmt cs n ref hv d v j t} (hr : isRef ref = true) (hl : lookupComp cs (lastSegment ref) = some t)
    (h : oav true fmt cs (n + 1) (.mk ref hv d v) j = true) :
    oav true fmt cs n t j = true ∧ (osrIsColl t = true → isEmptyColl j = false) := by
  rw [oav] at h
  simp only [hr, if_true, hl, Bool.and_eq_true, Bool.not_eq_true', Bool.true_and] at h
  refine ⟨h.1, fun hc => ?_⟩
  obtain ⟨r', hv', d', v'⟩ := t
  simp only [osrIsColl] at hc
  simpa [hc] using h.2

theorem oavBody_mk (x : Bool) (fmt : String → String → Bool) (v : OSR → Json → Bool) (a : OAttrs) (allOf anyOf oneOf : List OSR)
    (props : List (String × OSR)) (addl items : OOpt) (j : Json) :
    oavBody x fmt v (.mk a allOf anyOf oneOf props addl items) j =
      (if j.isNull && permitsNull a then true
       else if a.isEmpty then !j.isNull && !(x && !anyExact j)
       else
        (oneOf.isEmpty || countTrue (oneOf.map fun r => v r j) == 1) &&
        (anyOf.isEmpty || anyOf.any (fun r => v r j)) &&
        allOf.all (fun r => v r j) &&
        (if (!oneOf.isEmpty || !anyOf.isEmpty || !allOf.isEmpty) && j.isNull then true
         else
          enumOK a j &&
          !(x && osIsAny (.mk a allOf anyOf oneOf props addl items) && !anyExact j) &&
          typedPart x fmt v a props addl items j)) := rfl

/-- outcome of `oavBody` on a schema without combinator lists that the library does not consider empty -/
theorem oavBody_typed {fmt v a props addl items j} (hemp : a.isEmpty = false)
    (h : oavBody true fmt v (.mk a [] [] [] props addl items) j = true) :
    (j.isNull = true ∧ permitsNull a = true) ∨
    (enumOK a j = true ∧ (osIsAny (.mk a [] [] [] props addl items) = true → anyExact j = true) ∧
      typedPart true fmt v a props addl items j = true) := by
  rw [oavBody_mk] at h
  split at h
  · rename_i hc; exact Or.inl (by simpa using hc)
  · simp only [hemp, Bool.false_eq_true, if_false, List.isEmpty_nil, Bool.true_or, Bool.true_and, List.all_nil, Bool.not_true,
      Bool.or_self, Bool.false_and, Bool.and_eq_true, Bool.not_eq_true'] at h
    refine Or.inr ⟨h.1.1, fun ha => ?_, h.2⟩
    have := h.1.2
    simpa [ha] using this

theorem lists_nil {allOf anyOf oneOf : List OSR} (h : (allOf.isEmpty && anyOf.isEmpty && oneOf.isEmpty) = true) :
    allOf = [] ∧ anyOf = [] ∧ oneOf = [] := by
  simp only [Bool.and_eq_true, List.isEmpty_iff] at h
  exact ⟨h.1.1, h.1.2, h.2⟩

/-! ### struct members -/

theorem fieldsBuilt_names {pkg req} : ∀ {ps : List (String × OSR)} {fs : List Field},
    FieldsBuilt pkg req ps fs → fs.map (·.name) = ps.map (·.1)
  | _, _, .nil => rfl
  | _, _, .cons h rest => by simp [h.1, fieldsBuilt_names rest]

theorem sortedKeys_namesNodup : ∀ {ps : List (String × OSR)}, sortedKeys ps = true → namesNodup (ps.map (·.1)) = true
  | [], _ => rfl
  | (k, s) :: rest, h => by
    simp only [sortedKeys, Bool.and_eq_true, List.all_eq_true] at h
    simp only [List.map_cons, namesNodup, Bool.and_eq_true, Bool.not_eq_true']
    refine ⟨?_, sortedKeys_namesNodup h.2⟩
    cases hc : (rest.map (·.1)).contains k with
    | false => rfl
    | true =>
      obtain ⟨p, hp, e⟩ := List.mem_map.mp (List.contains_iff_mem.mp hc)
      have := h.1 p hp
      simp only [e, Bool.and_eq_true, decide_eq_true_eq, Bool.not_eq_true', decide_eq_false_iff_not] at this
      exact absurd this.1 this.2

theorem propsGet_mem : ∀ {ps : List (String × OSR)} {k : String} {r : OSR}, propsGet ps k = some r → (k, r) ∈ ps
  | [], _, _, h => by simp [propsGet] at h
  | (n, r0) :: rest, k, r, h => by
    simp only [propsGet] at h
    split at h
    · rename_i e; cases h; subst e; simp
    · exact List.mem_cons_of_mem _ (propsGet_mem h)

theorem propsGet_names {ps : List (String × OSR)} {k : String} {r : OSR} (h : propsGet ps k = some r) :
    (ps.map (·.1)).contains k = true :=
  List.contains_iff_mem.mpr (List.mem_map.mpr ⟨(k, r), propsGet_mem h, rfl⟩)

theorem lookup_mem : ∀ {ms : List (String × Json)} {k : String} {w : Json}, Json.lookup k ms = some w → (k, w) ∈ ms
  | [], _, _, h => by simp [Json.lookup] at h
  | (k', v') :: t, k, w, h => by
    simp only [Json.lookup] at h
    split at h
    · rename_i e; cases h; subst e; simp
    · exact List.mem_cons_of_mem _ (lookup_mem h)

theorem fields_ok {pkg cs S} (fmt : String → String → Bool) (C : OCtx pkg cs S) (n : Nat)
    (ih : ∀ r T j, fragR cs r = true → Builds pkg r T → wfDeep j = true →
      oav true fmt cs n r j = true → xden true (n + 2) S T j = true)
    (req : List String) (ms : List (String × Json)) (hwf : wfDeep (.obj ms) = true)
    (hreq : (req.all fun r => (Json.lookup r ms).isSome) = true) :
    ∀ {ps : List (String × OSR)} {fs : List Field}, FieldsBuilt pkg req ps fs → fragP cs req ps = true →
      (∀ p ∈ ps, ∀ w, Json.lookup p.1 ms = some w →
        oav true fmt cs n p.2 w = true ∧ (req.contains p.1 = false → osrIsColl p.2 = true → isEmptyColl w = false)) →
      xFieldsWith true (xden true (n + 2) S) fs ms = true
  | _, _, .nil, _, _ => by simp [xFieldsWith]
  | _, _, .cons (p := p) (f := f) (ps := ps) (fs := fs) hf rest, hfrag, hall => by
    obtain ⟨hname, hrq, hb⟩ := hf
    rw [fragP] at hfrag
    simp only [Bool.and_eq_true, Bool.or_eq_true, Bool.not_eq_true'] at hfrag
    obtain ⟨⟨hfp, hcoll⟩, hfrest⟩ := hfrag
    have tail := fields_ok fmt C n ih req ms hwf hreq rest hfrest (fun q hq => hall q (List.mem_cons_of_mem _ hq))
    have V := (oview_of pkg cs p.2 f.ty hfp hb).1
    unfold xFieldsWith at tail ⊢
    simp only [List.all_cons, Bool.and_eq_true, Bool.true_or, true_and, if_true]
    refine ⟨?_, by simpa using tail⟩
    rw [hname]
    cases hl : Json.lookup p.1 ms with
    | some w =>
      obtain ⟨h1, h2⟩ := hall p (by simp) w hl
      simp only [Bool.and_eq_true]
      refine ⟨ih p.2 f.ty w hfp hb (wfDeep_member hwf hl) h1, ?_⟩
      unfold xFieldValueOK
      rw [hrq]
      cases hrc : req.contains p.1 with
      | true => rfl
      | false =>
        simp only [Bool.false_or, Bool.not_eq_true', Bool.and_eq_false_iff]
        cases hic : isCollLike f.ty with
        | false => exact Or.inl rfl
        | true => exact Or.inr (h2 hrc (collLike_sound V hic))
    | none =>
      have hnr : req.contains p.1 = false := by
        cases hrc : req.contains p.1 with
        | false => rfl
        | true =>
          have := (List.all_eq_true.mp hreq) p.1 (List.contains_iff_mem.mp hrc)
          simp [hl] at this
      simp only [Bool.and_eq_true, Bool.not_eq_true']
      refine ⟨by rw [hrq]; exact hnr, ?_⟩
      have hnc : refToColl cs p.2 = false := by
        cases hcoll with
        | inl h => rw [hnr] at h; cases h
        | inr h => exact h
      exact xden_mono true S _ _ _ (absent_ok C V hnc n)

/-- with strictly sorted keys the first match of `propsGet` is the only one -/
theorem propsGet_sorted : ∀ {ps : List (String × OSR)} {p : String × OSR}, sortedKeys ps = true → p ∈ ps → propsGet ps p.1 = some p.2
  | [], _, _, h => by cases h
  | (k, r) :: rest, p, hs, h => by
    simp only [sortedKeys, Bool.and_eq_true, List.all_eq_true] at hs
    simp only [List.mem_cons] at h
    cases h with
    | inl e => subst e; simp [propsGet]
    | inr e =>
      have := hs.1 p e
      simp only [Bool.and_eq_true, decide_eq_true_eq, Bool.not_eq_true', decide_eq_false_iff_not] at this
      have hne : ¬ k = p.1 := by intro c; rw [c] at this; exact this.2 this.1
      simp [propsGet, hne, propsGet_sorted hs.2 e]

/-! ### the induction -/

theorem sound_core {pkg cs S} (fmt : String → String → Bool) (C : OCtx pkg cs S) :
    ∀ n r T j, fragR cs r = true → Builds pkg r T → wfDeep j = true →
      oav true fmt cs n r j = true → xden true (n + 2) S T j = true := by
  intro n
  induction n with
  | zero => intro r T j _ _ _ h; simp [oav] at h
  | succ n ih =>
    intro r T j hf hb hwf hv
    obtain ⟨V, hplain⟩ := oview_of pkg cs r T hf hb
    obtain ⟨ref, hv0, d, ⟨a, allOf, anyOf, oneOf, props, addl, items⟩⟩ := r
    cases V with
    | ref t hr hl ht =>
      obtain ⟨h1, h2⟩ := oav_ref hr hl hv
      obtain ⟨o, ho, hft, hbt, Vt⟩ := C.target hl
      have h3 := ih t o.ty j hft hbt hwf h1
      exact ref_step ho (target_shape ht Vt) m0 (n + 1) j h2 h3
    | enum vs kd hr he hne hnn hemp hk =>
      have P := hplain (by simp [isRefR, hr])
      obtain ⟨e1, e2, e3⟩ := lists_nil P.lists
      subst e1; subst e2; subst e3
      have hbody := oav_plain hr P.hasValue hv
      have htn : ∃ t, typeIs a t = true ∧ t ≠ "null" := by
        rcases hk with ⟨h, _⟩ | ⟨h, _⟩
        · exact ⟨"string", h, by decide⟩
        · exact ⟨"integer", h, by decide⟩
      obtain ⟨t0, ht0, hne0⟩ := htn
      obtain ⟨e0, es, e, hkind⟩ := enumMembers_cons a kd hne
      rcases oavBody_typed hemp hbody with ⟨_, hp⟩ | ⟨henum, _, htyped⟩
      · rw [permitsNull_of_typeIs ht0 hne0, hnn] at hp; cases hp
      · rw [e, xden_enum_step]
        have hhas : enumHas (e0 :: es) j = true := by
          rw [← e]
          unfold enumOK at henum
          cases vs with
          | nil => exact absurd rfl hne
          | cons v0 rest =>
            simp only [he] at henum
            simpa [enumHas, enumMembers, List.any_map, Function.comp] using henum
        simp only [hhas, Bool.and_true, Bool.or_eq_true]
        right
        rw [hkind]
        unfold typedPart at htyped
        rcases hk with ⟨hs, ek⟩ | ⟨hi, ek⟩ <;> subst ek
        · cases j <;> simp_all [permits_of_typeIs hs, numberOK, stringOK, denScalar]
        · cases j with
          | num q =>
            simp only [numberOK, permits_of_typeIs hi, Bool.and_eq_true, decide_eq_true_eq, Bool.or_eq_true, Bool.not_true,
              Bool.false_or, inInt64] at htyped
            simp at htyped
            exact denScalar_int64 q htyped.1.1.1.1.1 htyped.1.1.1.2
          | null | bool _ | str _ | arr _ | obj _ => simp_all [permits_of_typeIs hi, stringOK]
    | string hr he ht1 hbyte hp hemp =>
      have P := hplain (by simp [isRefR, hr])
      obtain ⟨e1, e2, e3⟩ := lists_nil P.lists
      subst e1; subst e2; subst e3
      have hbody := oav_plain hr P.hasValue hv
      rw [walkString_shape a hbyte]
      rcases oavBody_typed hemp hbody with ⟨hnull, hpn⟩ | ⟨_, _, htyped⟩
      · rw [permitsNull_of_typeIs ht1 (by decide)] at hpn
        by_cases hdt : a.format = "date-time"
        · rw [xden_scalar_dt S _ _ _ _ _ (by rw [hasHint_oa]; simp [hdt])]; simp [hpn, hnull]
        · rw [xden_scalar_plain S _ _ _ _ _ _ (by simp) (by simp) (by rw [hasHint_oa]; simp [hdt])]; simp [hpn, hnull]
      · unfold typedPart at htyped
        cases j with
        | str s =>
          by_cases hdt : a.format = "date-time"
          · rw [xden_scalar_dt S _ _ _ _ _ (by rw [hasHint_oa]; simp [hdt])]; simp
          · rw [xden_scalar_plain S _ _ _ _ _ _ (by simp) (by simp) (by rw [hasHint_oa]; simp [hdt])]
            simp only [denScalar_string, Bool.true_and, Bool.or_eq_true]
            right
            unfold stringValue
            split
            · rename_i hc
              simp only [Bool.and_eq_true, decide_eq_true_eq] at hc
              -- the generator reads a constant: the pattern is a plain `^text$`, which `stringOK` checks
              have hcp : constPattern a.pattern = some (Cog.Front.JsonSchema.constantStringFromRegex a.pattern) := by
                unfold patternOK at hp
                simp only [Bool.or_eq_true, decide_eq_true_eq, Bool.not_eq_true'] at hp
                rcases hp with (h | h) | h
                · exact absurd h hc.1
                · rw [hc.2] at h; cases h
                · unfold constPattern at h ⊢
                  split at h
                  · rename_i hcond; rw [if_pos hcond]
                  · cases h
              simp only [stringOK, hcp, Bool.and_eq_true, beq_iff_eq] at htyped
              simp [constOK, valMatches, htyped.1.2]
            · rfl
        | null | bool _ | num _ | arr _ | obj _ => simp_all [permits_of_typeIs ht1, numberOK]
    | integer hr he ht1 hemp =>
      have P := hplain (by simp [isRefR, hr])
      obtain ⟨e1, e2, e3⟩ := lists_nil P.lists
      subst e1; subst e2; subst e3
      have hbody := oav_plain hr P.hasValue hv
      unfold walkInteger
      rcases oavBody_typed hemp hbody with ⟨hnull, hpn⟩ | ⟨_, _, htyped⟩
      · rw [permitsNull_of_typeIs ht1 (by decide)] at hpn
        rw [xden_scalar_plain S _ _ _ _ _ _ (by split <;> simp) (by split <;> simp) rfl]; simp [hpn, hnull]
      · unfold typedPart at htyped
        cases j with
        | num q =>
          simp only [numberOK, permits_of_typeIs ht1, Bool.and_eq_true, decide_eq_true_eq, Bool.or_eq_true, Bool.not_true,
            Bool.false_or, inInt64] at htyped
          simp at htyped
          rw [xden_scalar_plain S _ _ _ _ _ _ (by split <;> simp) (by split <;> simp) rfl]
          simp only [constOK, Bool.and_true, Bool.or_eq_true]
          right
          split
          · rename_i h32
            have := htyped.1.1.1.1.2
            simp only [h32, not_true_eq_false, false_or] at this
            exact denScalar_int32 q htyped.1.1.1.1.1 this
          · exact denScalar_int64 q htyped.1.1.1.1.1 htyped.1.1.1.2
        | null | bool _ | str _ | arr _ | obj _ => simp_all [permits_of_typeIs ht1, stringOK]
    | number hr he ht1 hemp =>
      have P := hplain (by simp [isRefR, hr])
      obtain ⟨e1, e2, e3⟩ := lists_nil P.lists
      subst e1; subst e2; subst e3
      have hbody := oav_plain hr P.hasValue hv
      unfold walkNumber
      rcases oavBody_typed hemp hbody with ⟨hnull, hpn⟩ | ⟨_, _, htyped⟩
      · rw [permitsNull_of_typeIs ht1 (by decide)] at hpn
        rw [xden_scalar_plain S _ _ _ _ _ _ (by split <;> simp) (by split <;> simp) rfl]; simp [hpn, hnull]
      · unfold typedPart at htyped
        cases j with
        | num q =>
          rw [xden_scalar_plain S _ _ _ _ _ _ (by split <;> simp) (by split <;> simp) rfl]
          simp only [constOK, Bool.and_true, Bool.or_eq_true]
          right
          split <;> simp [denScalar]
        | null | bool _ | str _ | arr _ | obj _ => simp_all [permits_of_typeIs ht1, stringOK]
    | boolean hr he ht1 hnn hemp =>
      have P := hplain (by simp [isRefR, hr])
      obtain ⟨e1, e2, e3⟩ := lists_nil P.lists
      subst e1; subst e2; subst e3
      have hbody := oav_plain hr P.hasValue hv
      rcases oavBody_typed hemp hbody with ⟨_, hpn⟩ | ⟨_, _, htyped⟩
      · rw [permitsNull_of_typeIs ht1 (by decide), hnn] at hpn; cases hpn
      · unfold typedPart at htyped
        rw [xden_scalar_plain S _ _ _ _ _ _ (by simp) (by simp) rfl]
        cases j <;> simp_all [permits_of_typeIs ht1, numberOK, stringOK, denScalar, constOK]
    | any hr he hany =>
      have P := hplain (by simp [isRefR, hr])
      obtain ⟨e1, e2, e3⟩ := lists_nil P.lists
      subst e1; subst e2; subst e3
      have hbody := oav_plain hr P.hasValue hv
      rw [xden_any_step]
      simp only [hwf, Bool.and_true]
      cases hemp : a.isEmpty with
      | false =>
        rcases oavBody_typed hemp hbody with ⟨hnull, _⟩ | ⟨_, hex, _⟩
        · cases j <;> simp_all [Json.isNull, anyExact]
        · exact hex hany
      | true =>
        rw [oavBody_mk] at hbody
        split at hbody
        · rename_i hc; cases j <;> simp_all [Json.isNull, anyExact]
        · simp only [hemp, if_true, Bool.and_eq_true, Bool.not_eq_true', Bool.true_and] at hbody
          simpa using hbody.2
    | array r' Te hr he ht1 hnn hemp hnc hfr hbr =>
      have P := hplain (by simp [isRefR, hr])
      obtain ⟨e1, e2, e3⟩ := lists_nil P.lists
      subst e1; subst e2; subst e3
      have hbody := oav_plain hr P.hasValue hv
      rcases oavBody_typed hemp hbody with ⟨_, hpn⟩ | ⟨_, _, htyped⟩
      · rw [permitsNull_of_typeIs ht1 (by decide), hnn] at hpn; cases hpn
      · unfold typedPart at htyped
        cases j with
        | arr xs =>
          simp only [permits_of_typeIs ht1, decide_true, Bool.true_and, List.all_eq_true] at htyped
          rw [xden_array_step]
          simp only [view_notByte (oview_of pkg cs r' Te hfr hbr).1, Bool.not_false, Bool.true_and, List.all_eq_true]
          intro x hx
          exact ih r' Te x hfr hbr (wfDeep_arr_mem hwf hx) (htyped x hx)
        | null | bool _ | str _ | num _ | obj _ => simp_all [permits_of_typeIs ht1, numberOK, stringOK]
    | map r' Te hr he ht1 hnn hemp hnc hfr hbr =>
      have P := hplain (by simp [isRefR, hr])
      obtain ⟨e1, e2, e3⟩ := lists_nil P.lists
      subst e1; subst e2; subst e3
      have hbody := oav_plain hr P.hasValue hv
      rcases oavBody_typed hemp hbody with ⟨_, hpn⟩ | ⟨_, _, htyped⟩
      · rw [permitsNull_of_typeIs ht1 (by decide), hnn] at hpn; cases hpn
      · unfold typedPart at htyped
        cases j with
        | obj ms =>
          simp only [permits_of_typeIs ht1, decide_true, Bool.true_and, Bool.and_eq_true, List.all_eq_true, propsGet] at htyped
          rw [xden_map_step]
          simp only [wfDeep_obj hwf, Bool.true_and, List.all_eq_true]
          intro kv hkv
          have := htyped.1 kv hkv
          have hv' : oav true fmt cs n r' kv.2 = true := by
            cases hah : a.addlHas with
            | none => simpa [hah] using this
            | some b => cases b <;> simp_all
          exact ih r' Te kv.2 hfr hbr (wfDeep_obj_mem hwf hkv) hv'
        | null | bool _ | str _ | num _ | arr _ => simp_all [permits_of_typeIs ht1, numberOK, stringOK]
    | struct fs hr he ht1 hnn hemp hpne hah hsk hfp hbuilt =>
      have P := hplain (by simp [isRefR, hr])
      obtain ⟨e1, e2, e3⟩ := lists_nil P.lists
      subst e1; subst e2; subst e3
      have hbody := oav_plain hr P.hasValue hv
      rcases oavBody_typed hemp hbody with ⟨_, hpn⟩ | ⟨_, _, htyped⟩
      · rw [permitsNull_of_typeIs ht1 (by decide), hnn] at hpn; cases hpn
      · unfold typedPart at htyped
        cases j with
        | obj ms =>
          simp only [permits_of_typeIs ht1, decide_true, Bool.true_and, Bool.and_eq_true, List.all_eq_true, hah] at htyped
          obtain ⟨hmembers, hreq⟩ := htyped
          have hfields := fields_ok fmt C n ih a.required ms hwf (by simpa [List.all_eq_true] using hreq)
            hbuilt hfp (by
              intro p hp w hl
              have hm := hmembers (p.1, w) (lookup_mem hl)
              simp only [propsGet_sorted hsk hp, Bool.and_eq_true, Bool.not_eq_true', Bool.true_and] at hm
              refine ⟨hm.1, fun hrc hc => ?_⟩
              have h2 := hm.2
              rw [hrc, hc] at h2
              simpa using h2)
          rw [xden_struct_step]
          simp only [m0, Bool.false_and, Bool.false_or, xStructBody, Bool.and_eq_true]
          refine ⟨⟨⟨wfDeep_obj hwf, ?_⟩, ?_⟩, hfields⟩
          · rw [fieldsBuilt_names hbuilt]; exact sortedKeys_namesNodup hsk
          · rw [fieldsBuilt_names hbuilt]
            simp only [List.all_eq_true]
            intro kv hkv
            have := hmembers kv hkv
            cases hg : propsGet props kv.1 with
            | some r0 => exact propsGet_names hg
            | none => simp [hg] at this
        | null | bool _ | str _ | num _ | arr _ => simp_all [permits_of_typeIs ht1, numberOK, stringOK]

/-! ### the theorem about `frontEnd` -/

/-- PARSER SOUNDNESS for OpenAPI on the fragment: a document without duplicate member names that kin-openapi accepts
    (strict reading) for the component `root` belongs to `srcDen` of the IR the front-end builds. -/
theorem parser_sound (fmt : String → String → Bool) (pkg : String) (cs : Components) (root : String) (fuel : Nat) (S : Schemas)
    (hF : FragOA cs = true) (hR : rootFrag cs root = true) (hS : frontEnd pkg fuel cs = .ok S)
    (n : Nat) (j : Json) (hwf : wfDeep j = true) (hv : oaValidX fmt cs n (refTo root) j = true) :
    srcDen (n + 2) S (.ref pkg root {}) j = true := by
  simp only [FragOA, Bool.and_eq_true, List.all_eq_true] at hF
  have W := frontEnd_spec pkg fuel cs S hF.1 hS
  have C : OCtx pkg cs S := ⟨W, hF.2⟩
  simp only [rootFrag, Bool.and_eq_true, beq_iff_eq] at hR
  have hisref : isRef ("#/components/schemas/" ++ root) = true := by
    simp [isRef, String.toList_append]
  have hf : fragR cs (refTo root) = true := by
    rw [refTo, fragR]
    simp only [hisref, if_true]
    exact hR.1
  have hb : Builds pkg (refTo root) (.ref pkg (lastSegment ("#/components/schemas/" ++ root)) m0) :=
    ⟨1, by simp [walkSchemaRef, refTo, hisref]⟩
  have := sound_core fmt C n (refTo root) _ j hf hb hwf hv
  rw [hR.2] at this
  exact this

end Cog.Front.OpenApi
