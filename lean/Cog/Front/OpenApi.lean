/-
  C01 (b) — model of the OpenAPI front-end, internal/openapi/{generator.go,utils.go}, from the LIBRARY's
  value (`*openapi3.T` of getkin/kin-openapi after `Loader.LoadFromFile` + `Validate`) down to the FULL IR,
  compared VIR-equal with the real `GenerateAST` (stream `c01-front-oa`, harness/c01_front_oa.go, driver
  Cog/Drv/FrontOaDrv.lean).  Core Lean only.

  `OS` / `OSR` mirror `openapi3.Schema` / `openapi3.SchemaRef` as far as the generator reads them:
    * `SchemaRef{Ref, Value}`: `ref` is the reference text, `hasValue` = `Value != nil`, `descr` =
      `Value.Description` (the generator takes the COMMENTS of a member or object from `schemaRef.Value`, i.e.
      for a `$ref` from the referred schema), `value` = the schema (`emptyOS` below a reference: the loader makes
      `Value` point to the target, the generator does not follow it);
    * `Type *Types` (nil | list), `AllOf/AnyOf/OneOf/Enum` tested with `!= nil`, `Properties` a Go map (key-sorted
      association list; declared / walked in map order and sorted afterwards — order-independent on success);
    * `AdditionalProperties{Has *bool, Schema *SchemaRef}`; `Items *SchemaRef`;
    * `Default any`, `Enum []any`: Go values as decoded by the loader (`Val`: float64 for JSON numbers);
    * `Min/Max/MultipleOf *float64`: `F64` = Go's rendering of the float, its `int64(…)` conversion (used for
      `type: integer`) and its exact value (for validation) — data computed by the encoder.
  References: only same-file references are modelled (`getRefName` with no `.json` / `.yml` match: package =
  the schema's package, name = last `/`-segment); the encoder refuses documents with other references.
  Recursion: `walkSchemaRef` consumes one unit of fuel per call; helpers take the recursive call as parameter.
-/
import Cog.IR.Basic
import Cog.Front.JsonSchema
namespace Cog.Front.OpenApi
open Cog.IR
open Cog.Front.JsonSchema (obind obind_ok isort schemaComments regexMatchesConstantString constantStringFromRegex m0 anyTy stringTy)

/-- `*float64` -/
structure F64 where
  repr : String          -- strconv.FormatFloat(v, 'g', -1, 64)
  asInt64 : Int          -- int64(v)
  num : Int              -- exact value num/den (den > 0)
  den : Nat
  deriving Inhabited

structure OAttrs where
  types : Option (List String) := none
  format : String := ""
  pattern : String := ""
  nullable : Bool := false
  dflt : Val := .nil
  enum : Option (List Val) := none
  hasAllOf : Bool := false
  hasAnyOf : Bool := false
  hasOneOf : Bool := false
  required : List String := []
  addlHas : Option Bool := none
  min : Option F64 := none
  max : Option F64 := none
  multipleOf : Option F64 := none
  exclusiveMin : Bool := false
  exclusiveMax : Bool := false
  minLength : Nat := 0
  maxLength : Option Nat := none
  discriminator : Option (String × List (String × String)) := none   -- PropertyName, Mapping (key-sorted)
  isEmpty : Bool := false   -- the library's `Schema.IsEmpty()` (validation only; data computed by the encoder)
  unmodelled : List String := []
  deriving Inhabited

mutual
inductive OS where
  | mk (a : OAttrs) (allOf anyOf oneOf : List OSR) (props : List (String × OSR)) (addl : OOpt) (items : OOpt)
inductive OSR where
  | mk (ref : String) (hasValue : Bool) (descr : String) (value : OS)
inductive OOpt where
  | none
  | some (r : OSR)
end

def emptyOS : OS := .mk {} [] [] [] [] .none .none
instance : Inhabited OS := ⟨emptyOS⟩
instance : Inhabited OSR := ⟨.mk "" false "" emptyOS⟩

abbrev Components := List (String × OSR)

def OSR.descr : OSR → String
  | .mk _ _ d _ => d

def OSR.hasValue : OSR → Bool
  | .mk _ h _ _ => h

/-- `schemaComments(schemaRef.Value)` -/
def OSR.comments (r : OSR) : List String := if r.hasValue then schemaComments r.descr else []

/-- `Type.Is(t)` -/
def typeIs (a : OAttrs) (t : String) : Bool :=
  match a.types with
  | some [t'] => t' = t
  | _ => false

/-- `isRef` -/
def isRef (ref : String) : Bool := ref ≠ "" && ref.toList.contains '#'

def lastSegmentAux : List Char → List Char → List Char
  | [], cur => cur.reverse
  | c :: cs, cur => if c = '/' then lastSegmentAux cs [] else lastSegmentAux cs (c :: cur)

/-- `parts[len(parts)-1]` of `strings.Split(value, "/")` -/
def lastSegment (s : String) : String := String.ofList (lastSegmentAux s.toList [])

/-! ### `fmt.Sprintf` of the enum values -/

/-- `%s` -/
def fmtS : Val → String
  | .str s => s
  | .nil => "%!s(<nil>)"
  | .bool b => "%!s(bool=" ++ (if b then "true" else "false") ++ ")"
  | .float _ r => "%!s(float64=" ++ r ++ ")"
  | .int _ n => "%!s(int=" ++ toString n ++ ")"
  | _ => "?"

def goQuoteAux : List Char → String → String
  | [], acc => acc
  | c :: cs, acc =>
    goQuoteAux cs (if c = '"' then acc ++ "\\\"" else if c = '\\' then acc ++ "\\\\"
      else if c = '\n' then acc ++ "\\n" else if c = '\t' then acc ++ "\\t" else if c = '\r' then acc ++ "\\r"
      else acc.push c)

/-- `%#v` (scalars; the encoder refuses enum values of other dynamic types and strings `strconv.Quote` escapes specially) -/
def fmtSharpV : Val → String
  | .str s => "\"" ++ goQuoteAux s.toList "" ++ "\""
  | .nil => "<nil>"
  | .bool b => if b then "true" else "false"
  | .float _ r => r
  | .int _ n => toString n
  | _ => "?"

/-! ### utils.go -/

/-- `getArgs` -/
def getArgs (v : F64) (t : String) : List Val :=
  if t = "integer" then [.int "i64" v.asInt64] else [.float "f64" v.repr]

def type0 (a : OAttrs) : String :=
  match a.types with
  | some (t :: _) => t
  | _ => ""

/-- `getConstraints` (called where `Type.Is(…)` holds: `Type.Slice()[0]` exists) -/
def getConstraints (a : OAttrs) : List Constraint :=
  (if a.minLength > 0 then [{ op := "minLength", args := [.int "u64" a.minLength] }] else []) ++
  (match a.maxLength with | some n => [{ op := "maxLength", args := [.int "u64" n] }] | none => []) ++
  (match a.multipleOf with | some v => [{ op := "multipleOf", args := getArgs v (type0 a) }] | none => []) ++
  (match a.min with
   | some v => [{ op := if a.exclusiveMin then ">" else ">=", args := getArgs v (type0 a) }]
   | none => []) ++
  (match a.max with
   | some v => [{ op := if a.exclusiveMax then "<" else "<=", args := getArgs v (type0 a) }]
   | none => [])

/-- `getEnumType` -/
def getEnumType (t : String) : Outcome String :=
  if t = "string" then .ok "string" else if t = "number" then .ok "int32" else if t = "integer" then .ok "int64"
  else .err "only strings/numbers are supported"

/-! ### generator.go -/

abbrev Walk := OSR → Outcome Ty

def walkRefs (w : Walk) : List OSR → Outcome (List Ty)
  | [] => .ok []
  | r :: rs => obind (w r) fun t => obind (walkRefs w rs) fun ts => .ok (t :: ts)

def walkProps (w : Walk) (required : List String) : List (String × OSR) → Outcome (List Field)
  | [] => .ok []
  | (name, r) :: rest =>
    obind (w r) fun t => obind (walkProps w required rest) fun fs =>
      .ok ({ name := name, ty := t, required := required.contains name, comments := r.comments } :: fs)

def sortFields (fs : List Field) : List Field := isort (fun a b => !(b.name < a.name)) fs

/-- `walkObject` -/
def walkObject (w : Walk) (a : OAttrs) (props : List (String × OSR)) (addl : OOpt) : Outcome Ty :=
  if props.isEmpty then
    match addl with
    | .none => .ok anyTy
    | .some r => obind (w r) fun t => .ok (.map stringTy t m0)
  else obind (walkProps w a.required props) fun fs => .ok (.struct (sortFields fs) [] none m0)

def stringValue (a : OAttrs) : Val :=
  if a.pattern ≠ "" && regexMatchesConstantString a.pattern then .str (constantStringFromRegex a.pattern) else .nil

/-- `walkString` -/
def walkString (a : OAttrs) : Ty :=
  let kind := if a.format = "date-time" then "string" else if a.format = "byte" then "bytes" else "string"
  let hints : List (String × Val) := if a.format = "date-time" then [("string_format_datetime", .bool true)] else []
  .scalar kind (stringValue a) (getConstraints a) { nullable := a.nullable, dflt := a.dflt, hints := hints }

/-- `walkNumber` -/
def walkNumber (a : OAttrs) : Ty :=
  .scalar (if a.format = "double" then "float64" else "float32") .nil (getConstraints a) { nullable := a.nullable, dflt := a.dflt }

/-- `walkInteger` -/
def walkInteger (a : OAttrs) : Ty :=
  .scalar (if a.format = "int32" then "int32" else "int64") .nil (getConstraints a) { nullable := a.nullable, dflt := a.dflt }

/-- `walkEnum` -/
def walkEnum (a : OAttrs) (vals : List Val) : Outcome Ty :=
  match a.types with
  | some (t :: _) =>
    obind (getEnumType t) fun k =>
      .ok (.enum (vals.map fun v => { name := if typeIs a "string" then fmtS v else fmtSharpV v, value := v, kind := k }) { dflt := a.dflt })
  | _ => .err "enum without a type"

def discInfo (a : OAttrs) : DisjInfo :=
  match a.discriminator with
  | some (name, mapping) => { discriminator := name, mapping := mapping }
  | none => {}

/-- `walkDefinitions` -/
def walkDefinitions (w : Walk) : OS → Outcome Ty
  | .mk a allOf anyOf oneOf props addl items =>
    if a.hasAllOf then obind (walkRefs w allOf) fun ts => .ok (.inter ts m0)
    else if a.hasAnyOf then obind (walkRefs w anyOf) fun ts => .ok (.disj ts (discInfo a) m0)
    else if a.hasOneOf then obind (walkRefs w oneOf) fun ts => .ok (.disj ts (discInfo a) m0)
    else
    match a.enum with
    | some vals => walkEnum a vals
    | none =>
      if typeIs a "string" then .ok (walkString a)
      else if typeIs a "object" then walkObject w a props addl
      else if typeIs a "array" then
        (match items with
         | .none => .err "array without items"
         | .some r => obind (w r) fun t => .ok (.array t { dflt := a.dflt }))
      else if typeIs a "boolean" then .ok (.scalar "bool" .nil [] { dflt := a.dflt })
      else if typeIs a "integer" then .ok (walkInteger a)
      else if typeIs a "number" then .ok (walkNumber a)
      else .ok anyTy

/-- `walkSchemaRef` -/
def walkSchemaRef (pkg : String) : Nat → OSR → Outcome Ty
  | 0, _ => .err "fuel"
  | fuel + 1, .mk ref hasValue _ value =>
    if isRef ref then .ok (.ref pkg (lastSegment ref) m0)
    else if !hasValue then .err "schema without a value"
    else walkDefinitions (walkSchemaRef pkg fuel) value

/-- the loop of `declareDefinition` -/
def declareAll (pkg : String) (fuel : Nat) : Components → Outcome Objects
  | [] => .ok []
  | (name, r) :: rest =>
    obind (walkSchemaRef pkg fuel r) fun t => obind (declareAll pkg fuel rest) fun os =>
      .ok ((name, { name := name, comments := r.comments, ty := t, selfPkg := pkg, selfName := name }) :: os)

def sortObjects (os : Objects) : Objects := isort (fun a b => !(b.1 < a.1)) os

/-- `GenerateAST` after `Validate`: `components = none` is `oapi.Components == nil`.  The component names are map
    keys (unique); the objects are added in map order and sorted. -/
def generateAST (pkg : String) (smeta : SchemaMeta) (fuel : Nat) (components : Option Components) : Outcome Schema :=
  match components with
  | none => .ok { pkg := pkg, smeta := smeta }
  | some cs => obind (declareAll pkg fuel cs) fun os => .ok { pkg := pkg, smeta := smeta, objects := sortObjects os }

def frontEnd (pkg : String) (fuel : Nat) (cs : Components) : Outcome Schemas :=
  obind (generateAST pkg {} fuel (some cs)) fun s => .ok [s]

end Cog.Front.OpenApi
