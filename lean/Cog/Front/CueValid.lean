/-
  C01 (b), CUE — which JSON documents a CUE value of the fragment admits (`cueValid`, read off the VIEW `CV` of
  Cog/Front/Cue.lean), the decidable fragment `FragCue`, and the shape relation `shape` between a view and the IR type
  the front-end builds for it.  Core Lean only (the driver evaluates all of it).

  Classes of view nodes in the fragment (everything else is outside):
    time ref    `time.Time`                                   → string with the date-time hint
    local ref   `#Name` to a top-level definition that is a struct, a string enum or a plain scalar
    enum        `"a" | "b" | …` (concrete strings, a default marker allowed)
    null pair   `null | X`  (X any class but a null pair)
    constant    a concrete string / bool / int (int64 range) / float
    scalar      `string` (with strings.MinRunes / MaxRunes), `bool`, a number type with bounds, each also as `T | *v`
                (`int32 & >=1 & <=5`, `float64 & >=0.5`, `int`, `uint`, `number`, …)
    any         `_`
    list        `[...X]`       map   `{[string]: X}`       struct  `{a: X, b?: Y}` (closed: inside a definition)
  No default (`*v`) outside enums and scalars, no attribute, no `&` of two equal operands, no embedded definitions.

  `cueValid x fl fmt top n v d`: the document `d` unifies with `v` (fuel `n`: one unit per nesting level; a struct
  needs two more units for its absent optional members).  `x = true` is the STRICT reading that mirrors the
  exclusions of `srcDen` (S1: a number lies in the range of the IR kind the front-end picks — CUE's `int` / `uint` /
  `number` are unbounded; S2: no empty `[]` / `{}` in an optional member; S3: `_` holds float64-exact numbers and no
  duplicate keys).  `fl = true` reads CUE's float types literally (an integer-valued JSON number is an `int`, not a
  float); the Lean `Json` cannot see the lexeme, so the tie compares `fl = true ⇒ CUE accepts ⇒ fl = false`.
  `fmt` is the oracle of `time.Time`'s format.
-/
import Cog.Front.Cue
import Cog.Sem.SrcDen
namespace Cog.Front.Cue
open Cog.IR Cog.Sem Cog.Sem.Src Cog.Passes

/-! ### classes -/

def plainNode (v : CV) : Bool :=
  let i := v.info
  i.refPath == "" && (!i.hasDefault || (i.ikind == "list" && i.dfltEqSelf)) &&   -- an open list is its own default
  !(i.op == "and" && i.nargs == 2 && i.pairSub) && i.pair0Ref == "" && i.attrs.isEmpty

def isTimeRef (v : CV) : Bool :=
  let i := v.info
  i.refPath != "" && i.refPkg == "time" && i.refName == "Time" && !i.hasDefault && i.attrs.isEmpty

def isLocalRef (pkg : String) (v : CV) : Bool :=
  let i := v.info
  i.refPath != "" && i.refPkg == pkg && !(i.refPkg == "time" && i.refName == "Time") && !i.hasDefault && i.attrs.isEmpty

def strOf : CS → Option String
  | .v (.str s) => some s
  | _ => none

def isEnumV (v : CV) : Bool :=
  let i := v.info
  i.refPath == "" && i.attrs.isEmpty && !(i.op == "and") &&
  i.op == "or" && decide (1 < i.nargs) && i.ikind == "string" && i.enumOK && v.args.length == i.nargs &&
  v.args.all fun a => a.2.info.concrete && (strOf a.2.info.scalar).isSome

def isNullV (v : CV) : Bool := plainNode v && v.info.ikind == "null" && v.info.op != "or"

def isOr (v : CV) : Bool := v.info.op == "or"

def isNullPair (v : CV) : Bool :=
  plainNode v && !isEnumV v && isOr v && v.info.nargs == 2 &&
  match v.args with
  | [a, b] => isNullV a.2 && (!isOr b.2 || isEnumV b.2)
  | _ => false

def constKind : Val → String
  | .str _ => "string"
  | .bool _ => "bool"
  | .int _ _ => "int64"
  | .float _ _ => "float64"
  | _ => ""

def constVal (v : CV) : Val :=
  match v.info.scalar with
  | .v x => x
  | _ => .nil

def constOKV : Val → Bool
  | .str _ => true
  | .bool _ => true
  | .int _ n => denScalar "int64" (.num (4 * n))
  | .float _ _ => true
  | _ => false

def isConstV (v : CV) : Bool :=
  plainNode v && !isOr v && v.info.concrete && constOKV (constVal v) &&
  (v.info.ikind == "string" || v.info.ikind == "bool" || v.info.ikind == "int" || v.info.ikind == "float" || v.info.ikind == "number")

/-- the tokens of a number's syntax `tok & bound & … [| *default]`: exactly the first token is a type name; the bounds are
    the `&`-parts of `csyn` (the syntax without the default) -/
def numTok (i : CInfo) : Option String :=
  match splitStr i.syn " " with
  | tok :: rest =>
    if (numberKindOf tok).isSome && rest.all (fun p => (numberKindOf p).isNone) && (splitStr i.csyn " & ").head? == some tok then some tok else none
  | [] => none

/-- the IR scalar kind of a plain scalar view -/
def scalarKindOf (i : CInfo) : String :=
  if i.ikind == "string" then "string"
  else if i.ikind == "bool" then "bool"
  else match numTok i with
    | some tok => (numberKindOf tok).getD ""
    | none => ""

def isIntJ : Json → Bool
  | .num q => q % 4 == 0
  | _ => false

/-- CUE's reading of a number type name -/
def cueTok (fl : Bool) (tok : String) (d : Json) : Bool :=
  match d with
  | .num q =>
    if tok = "int" then q % 4 == 0
    else if tok = "uint" then q % 4 == 0 && decide (0 ≤ q)
    else if tok = "number" then true
    else if tok = "float" ∨ tok = "float32" ∨ tok = "float64" then !(fl && q % 4 == 0)
    else denScalar tok d
  | _ => false

def litVal (i : CInfo) (t : String) : Option Int :=
  if i.cFloat then
    match i.lits.find? (fun kv => kv.1 = t) with
    | some (_, .float _ r) => Json.parseNum r
    | _ => none
  else (Cog.Front.JsonSchema.parseInt64 t).map (· * 4)

/-- one `&`-part of a number's syntax that is a bound -/
def boundOK (i : CInfo) (part : String) (q : Int) : Bool :=
  match part.toList with
  | '>' :: '=' :: t => (match litVal i (String.ofList t) with | some b => decide (b ≤ q) | none => false)
  | '>' :: t => (match litVal i (String.ofList t) with | some b => decide (b < q) | none => false)
  | '<' :: '=' :: t => (match litVal i (String.ofList t) with | some b => decide (q ≤ b) | none => false)
  | '<' :: t => (match litVal i (String.ofList t) with | some b => decide (q < b) | none => false)
  | _ => false

def strConsOK (s : String) : List Conj → Bool
  | [] => true
  | c :: rest =>
    (if c.op == "call" && c.callName == "strings.MinRunes" then
       (match c.arg with | .v (.int _ n) => decide (n ≤ s.length) | _ => false)
     else if c.op == "call" && c.callName == "strings.MaxRunes" then
       (match c.arg with | .v (.int _ n) => decide ((s.length : Int) ≤ n) | _ => false)
     else c.op == "no" && c.callName == "") && strConsOK s rest

def validScalar (x fl : Bool) (i : CInfo) (d : Json) : Bool :=
  (!x || denScalar (scalarKindOf i) d) &&
  (if i.ikind == "string" then
     (match d with | .str s => strConsOK s i.andsplit | _ => false)
   else if i.ikind == "bool" then
     (match d with | .bool _ => true | _ => false)
   else
     match numTok i, d with
     | some tok, .num q => cueTok fl tok d && ((splitStr i.csyn " & ").drop 1).all (fun p => boundOK i p q)
     | _, _ => false)

def constJson : Val → Option Json
  | .str s => some (.str s)
  | .bool b => some (.bool b)
  | .int _ n => some (.num (4 * n))
  | .float _ r => (Json.parseNum r).map Json.num
  | _ => none

/-- `plainNode` but for the default: `T | *v` is evaluated by CUE to ONE value with a default (no `|` left in `Expr`);
    the default must be a constant that the scalar itself admits -/
def plainOrDefault (v : CV) : Bool :=
  let i := v.info
  i.refPath == "" && !(i.op == "and" && i.nargs == 2 && i.pairSub) && i.pair0Ref == "" && i.attrs.isEmpty &&
  (!i.hasDefault ||
    (match i.dflt with
     | .v c => (match constJson c with
         | some j => validScalar false false { i with hasDefault := false } j
         | none => false)
     | _ => false))

def isPlainScalarV (v : CV) : Bool :=
  plainOrDefault v && !isOr v && !v.info.concrete &&
  (v.info.ikind == "string" || v.info.ikind == "bool" ||
   ((v.info.ikind == "int" || v.info.ikind == "float" || v.info.ikind == "number") && (numTok v.info).isSome))

def isAnyV (v : CV) : Bool := plainNode v && !isOr v && v.info.ikind == "top"

def isListV (v : CV) : Bool :=
  plainNode v && !isOr v && v.info.ikind == "list" && v.info.allowsAny && v.elem.length == 1

def mapCond (v : CV) : Bool := v.info.evalOp == "no" && v.info.anyExists && !v.info.evalHasFields

def isMapV (v : CV) : Bool :=
  plainNode v && !isOr v && v.info.ikind == "struct" && mapCond v && v.anystr.length == 1

def labels (fs : List (String × Bool × Bool × CV)) : List String := fs.map (·.1)

def isStructV (v : CV) : Bool :=
  plainNode v && !isOr v && v.info.ikind == "struct" && !mapCond v && !v.fields.isEmpty &&
  v.fields.all (fun f => !f.2.1) && namesNodup (labels v.fields)

/-- what a local reference may point to -/
def aliasClass (v : CV) : Bool := isStructV v || isEnumV v || isPlainScalarV v

def lookupEntry (defs : Top) (path : String) : Option (String × CV) :=
  match defs with
  | [] => none
  | (p, n, v) :: rest => if p = path then some (n, v) else lookupEntry rest path

/-! ### shape of the IR type built for a view -/

def noHints (m : Meta) : Bool := m.hints.isEmpty

def enumMatch : List EnumVal → List (Bool × CV) → Bool
  | [], [] => true
  | e :: es, a :: as => e.kind == "string" && (match e.value, strOf a.2.info.scalar with
      | .str s, some s' => s == s'
      | _, _ => false) && enumMatch es as
  | _, _ => false

def valSame : Val → Val → Bool
  | .str a, .str b => a == b
  | .bool a, .bool b => a == b
  | .int _ a, .int _ b => a == b
  | .float _ a, .float _ b => a == b
  | _, _ => false

def fieldsShape (sh : CV → Ty → Bool) : List (String × Bool × Bool × CV) → List Field → Bool
  | [], [] => true
  | (l, _, opt, fv) :: rest, f :: fs => f.name == l && f.required == !opt && sh fv f.ty && fieldsShape sh rest fs
  | _, _ => false

/-- the classes a local reference may point to; `sh` = the relation on the children -/
def aliasShape (sh : CV → Ty → Bool) (v : CV) (T : Ty) : Bool :=
  if isEnumV v then
    (match T with
     | .enum vals _ => enumMatch vals v.args
     | _ => false)
  else if isPlainScalarV v then
    (match T with
     | .scalar k .nil _ m => k == scalarKindOf v.info && noHints m && k != "bytes" && k != "any"
     | _ => false)
  else if isStructV v then
    (match T with
     | .struct fs _ none _ => fieldsShape sh v.fields fs
     | _ => false)
  else false

/-- non-reference nodes -/
def shapeBody (sh : CV → Ty → Bool) (v : CV) (T : Ty) : Bool :=
  if isNullPair v then
    (match v.args, T with
     | [_, b], .disj [t0, t1] _ _ => isNull t0 && !isNull t1 && sh b.2 t1
     | _, _ => false)
  else if isConstV v then
    (match T with
     | .scalar k val _ m => k == constKind (constVal v) && valSame val (constVal v) && noHints m
     | _ => false)
  else if isAnyV v then
    (match T with
     | .scalar k _ _ _ => k == "any"
     | _ => false)
  else if isListV v then
    (match v.elem, T with
     | [e], .array te _ => sh e te && !isByteElem te
     | _, _ => false)
  else if isMapV v then
    (match v.anystr, T with
     | [a], .map (.scalar ik _ _ _) tv _ => ik == "string" && sh a tv
     | _, _ => false)
  else aliasShape sh v T

def shape (pkg : String) (top : Top) : Nat → CV → Ty → Bool
  | 0, _, _ => false
  | k + 1, v, T =>
    if isTimeRef v then
      (match T with
       | .scalar kd _ _ m => kd == "string" && hasHint m "string_format_datetime"
       | _ => false)
    else if isLocalRef pkg v then
      (match T with
       | .ref p n _ => p == pkg && n == v.info.refName &&
           (match lookupEntry top v.info.refPath with
            | some (name, target) => name == v.info.refName && aliasClass target
            | none => false)
       | _ => false)
    else shapeBody (shape pkg top k) v T

def shapeFuel : Nat := 32

/-- every top-level field is a definition of an alias class whose object has the expected shape -/
def agree (pkg : String) (top : Top) (S : Schemas) : Bool :=
  top.all fun e =>
    aliasClass e.2.2 &&
    match Schemas.locateObject S pkg e.2.1 with
    | some o => aliasShape (shape pkg top shapeFuel) e.2.2 o.ty
    | none => false

/-- the fragment: the model's IR has the shape the views of the fragment's classes call for -/
def FragCue (pkg : String) (fuel : Nat) (top : Top) : Bool :=
  match cueFront pkg fuel top with
  | .ok S => agree pkg top S
  | _ => false

/-- reporting only: what kind of view node is this -/
def memberSig (v : CV) : String :=
  let i := v.info
  (if i.refPath != "" then "ref" else i.ikind) ++ "/" ++ i.op ++ (if i.hasDefault then "/default" else "") ++
    (if !i.attrs.isEmpty then "/attr" else "") ++ (if i.concrete then "/concrete" else "")

def firstBadMember (sh : CV → Ty → Bool) : List (String × Bool × Bool × CV) → List Field → String
  | (_, isDef, _, fv) :: rest, f :: fs =>
    if isDef then "embedded-definition"
    else if sh fv f.ty then firstBadMember sh rest fs
    else "member:" ++ memberSig fv
  | _, _ => "field-lists-differ"

/-- first reason for being outside (reporting only) -/
def fragCueWhy (pkg : String) (fuel : Nat) (top : Top) : String :=
  match cueFront pkg fuel top with
  | .ok S =>
    (match top.find? (fun e => !(aliasClass e.2.2 && match Schemas.locateObject S pkg e.2.1 with
        | some o => aliasShape (shape pkg top shapeFuel) e.2.2 o.ty
        | none => false)) with
     | some e =>
       if !aliasClass e.2.2 then "definition:" ++ memberSig e.2.2
       else if isStructV e.2.2 then
         (match Schemas.locateObject S pkg e.2.1 with
          | some o => (match o.ty with
              | .struct fs _ _ _ => firstBadMember (shape pkg top shapeFuel) e.2.2.fields fs
              | _ => "definition-type-is-not-a-struct")
          | none => "definition-without-object")
       else "definition-shape"
     | none => "-")
  | _ => "front-end-error"

/-! ### validity -/

/-- CUE fills in an absent regular member whose value is concrete without data: a constant, `null`, an open list (`[]`),
    a map (`{}`), an enum with a default marker, a struct of optional / fillable members, a reference to such a definition -/
def fillable (pkg : String) (top : Top) : Nat → CV → Bool
  | 0, _ => false
  | k + 1, v =>
    isConstV v || isListV v || isMapV v || isNullV v || (isEnumV v && v.info.hasDefault) || (isPlainScalarV v && v.info.hasDefault) ||
    (isStructV v && v.fields.all fun f => f.2.2.1 || fillable pkg top k f.2.2.2) ||
    (isLocalRef pkg v && match lookupEntry top v.info.refPath with
      | some (_, t) => fillable pkg top k t
      | none => false)

def validStruct (x : Bool) (fill : CV → Bool) (w : CV → Json → Bool) (fields : List (String × Bool × Bool × CV)) (d : Json) : Bool :=
  match d with
  | .obj members =>
    keysNodup members && members.all (fun kv => (labels fields).contains kv.1) &&
    fields.all fun f =>
      match Json.lookup f.1 members with
      | some val => w f.2.2.2 val && (!x || !f.2.2.1 || !isEmptyColl val)
      | none => f.2.2.1 || (!x && fill f.2.2.2)   -- CUE fills in such a member; the IR says `required`
  | _ => false

def enumValid (v : CV) (d : Json) : Bool :=
  match d with
  | .str s => v.args.any fun a => strOf a.2.info.scalar == some s
  | _ => false

/-- the classes a local reference may point to; `w` = validity of the children; `deep` = two more units of fuel -/
def aliasValid (x fl : Bool) (fill : CV → Bool) (deep : Bool) (w : CV → Json → Bool) (v : CV) (d : Json) : Bool :=
  if isEnumV v then enumValid v d
  else if isPlainScalarV v then validScalar x fl v.info d
  else if isStructV v then deep && validStruct x fill w v.fields d
  else false

/-- non-reference nodes -/
def cueBody (x fl : Bool) (fill : CV → Bool) (deep : Bool) (w : CV → Json → Bool) (v : CV) (d : Json) : Bool :=
  if isNullPair v then
    (match v.args with
     | [_, b] => deep && (d.isNull || w b.2 d)
     | _ => false)
  else if isConstV v then valMatches (constVal v) d
  else if isAnyV v then !x || (anyExact d && wfDeep d)
  else if isListV v then
    (match v.elem, d with
     | [e], .arr xs => xs.all (w e)
     | _, _ => false)
  else if isMapV v then
    (match v.anystr, d with
     | [a], .obj kvs => keysNodup kvs && kvs.all (fun kv => w a kv.2)
     | _, _ => false)
  else aliasValid x fl fill deep w v d

def cueValid (x fl : Bool) (fmt : String → Bool) (pkg : String) (top : Top) : Nat → CV → Json → Bool
  | 0, _, _ => false
  | n + 1, v, d =>
    if isTimeRef v then
      (match d with | .str s => fmt s | _ => false)
    else if isLocalRef pkg v then
      (match lookupEntry top v.info.refPath with
       | some (_, target) => aliasValid x fl (fillable pkg top 16) (decide (2 ≤ n)) (cueValid x fl fmt pkg top n) target d
       | none => false)
    else cueBody x fl (fillable pkg top 16) (decide (2 ≤ n)) (cueValid x fl fmt pkg top n) v d

/-- validity against the top-level definition `#root` (what a reference to it admits); fuel `n + 1` -/
def cueValidDef (x fl : Bool) (fmt : String → Bool) (pkg : String) (top : Top) (n : Nat) (root : String) (d : Json) : Bool :=
  match lookupEntry top ("#" ++ root) with
  | some (name, target) => name == root && aliasValid x fl (fillable pkg top 16) (decide (2 ≤ n)) (cueValid x fl fmt pkg top n) target d
  | none => false

end Cog.Front.Cue
