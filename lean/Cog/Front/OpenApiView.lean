/-
  C01 (b), OpenAPI — what `generateAST` declares (`frontEnd_spec`) and the one-level view of a schema reference of
  the fragment together with the type the generator builds for it (`oview_of`).  The generator is stateless: every
  component is walked on its own, a `$ref` becomes a reference by name.
-/
import Cog.Front.OpenApiFrag
import Cog.Front.JsonSchemaInv
namespace Cog.Front.OpenApi
open Cog.IR Cog.Sem
open Cog.OMap (rget)
open Cog.Front.JsonSchema (obind obind_ok isort isort_perm isort_of_pairwise m0 anyTy stringTy rget_perm)

/-- `T` is a type the generator builds for the schema reference `r` (some fuel) -/
def Builds (pkg : String) (r : OSR) (T : Ty) : Prop := ∃ k, walkSchemaRef pkg k r = .ok T

/-! ### the objects of the result -/

theorem declareAll_keys {pkg fuel} : ∀ {cs : Components} {os : Objects}, declareAll pkg fuel cs = .ok os →
    os.map (·.1) = cs.map (·.1)
  | [], os, h => by simp [declareAll] at h; subst h; rfl
  | (name, r) :: rest, os, h => by
    simp only [declareAll] at h
    obtain ⟨t, _, h2⟩ := obind_ok h
    obtain ⟨os', h3, h4⟩ := obind_ok h2
    simp at h4; subst h4
    simp [declareAll_keys h3]

theorem declareAll_get {pkg fuel} : ∀ {cs : Components} {os : Objects}, declareAll pkg fuel cs = .ok os →
    ∀ name, (∀ o, rget name os = some o → ∃ r, lookupComp cs name = some r ∧ walkSchemaRef pkg fuel r = .ok o.ty ∧
                  o.selfPkg = pkg ∧ o.selfName = name) ∧
            (∀ r, lookupComp cs name = some r → (rget name os).isSome = true)
  | [], os, h, name => by
    simp [declareAll] at h; subst h
    exact ⟨by intro o ho; simp [rget] at ho, by intro r hr; simp [lookupComp] at hr⟩
  | (n, r) :: rest, os, h, name => by
    simp only [declareAll] at h
    obtain ⟨t, h1, h2⟩ := obind_ok h
    obtain ⟨os', h3, h4⟩ := obind_ok h2
    simp at h4; subst h4
    have ih := declareAll_get h3 name
    by_cases e : n = name
    · subst e
      exact ⟨by intro o ho; simp [rget] at ho; subst ho; exact ⟨r, by simp [lookupComp], h1, rfl, rfl⟩,
             by intro r' _; simp [rget]⟩
    · exact ⟨by intro o ho; simp [rget, e] at ho; obtain ⟨r', a, b⟩ := ih.1 o ho; exact ⟨r', by simp [lookupComp, e, a], b⟩,
             by intro r' hr; simp [lookupComp, e] at hr; simp [rget, e]; exact ih.2 r' hr⟩

theorem keysNodupC_nodup : ∀ {cs : Components}, keysNodupC cs = true → (cs.map (·.1)).Nodup
  | [], _ => by simp
  | (k, r) :: rest, h => by
    simp only [keysNodupC, Bool.and_eq_true, Bool.not_eq_true', List.any_eq_false, beq_iff_eq] at h
    simp only [List.map_cons, List.nodup_cons, List.mem_map, not_exists, not_and]
    exact ⟨fun c hc e => h.1 c hc e, keysNodupC_nodup h.2⟩

/-- what the soundness proof uses of the schema set the front-end returns -/
structure OWorld (pkg : String) (cs : Components) (S : Schemas) : Prop where
  obj : ∀ name o, Schemas.locateObject S pkg name = some o → ∃ r, lookupComp cs name = some r ∧ Builds pkg r o.ty
  has : ∀ name r, lookupComp cs name = some r → (Schemas.locateObject S pkg name).isSome = true
  self : ∀ name o, Schemas.locateObject S pkg name = some o → o.selfPkg = pkg ∧ o.selfName = name

theorem frontEnd_spec (pkg : String) (fuel : Nat) (cs : Components) (S : Schemas)
    (hk : keysNodupC cs = true) (h : frontEnd pkg fuel cs = .ok S) : OWorld pkg cs S := by
  unfold frontEnd at h
  obtain ⟨sch, h1, h2⟩ := obind_ok h
  cases h2
  simp only [generateAST] at h1
  obtain ⟨os, h3, h4⟩ := obind_ok h1
  simp at h4
  have nd : (os.map (·.1)).Nodup := by rw [declareAll_keys h3]; exact keysNodupC_nodup hk
  have hloc : ∀ n, Schemas.locateObject [sch] pkg n = rget n os := by
    intro n
    subst h4
    simp [Schemas.locateObject, Schemas.locate, Schema.locateObject, sortObjects, rget_perm (isort_perm _ os).symm nd]
  refine ⟨?_, ?_, ?_⟩
  · intro name o ho
    rw [hloc] at ho
    obtain ⟨r, a, b, _⟩ := (declareAll_get h3 name).1 o ho
    exact ⟨r, a, fuel, b⟩
  · intro name r hr
    rw [hloc]
    exact (declareAll_get h3 name).2 r hr
  · intro name o ho
    rw [hloc] at ho
    obtain ⟨r, _, _, c, d⟩ := (declareAll_get h3 name).1 o ho
    exact ⟨c, d⟩

/-! ### the view -/

inductive FieldsBuilt (pkg : String) (req : List String) : List (String × OSR) → List Field → Prop
  | nil : FieldsBuilt pkg req [] []
  | cons {p : String × OSR} {f : Field} {ps : List (String × OSR)} {fs : List Field} :
      (f.name = p.1 ∧ f.required = req.contains p.1 ∧ Builds pkg p.2 f.ty) →
      FieldsBuilt pkg req ps fs → FieldsBuilt pkg req (p :: ps) (f :: fs)

theorem walkProps_built {pkg : String} {k : Nat} (req : List String) :
    ∀ (ps : List (String × OSR)) (fs : List Field),
    walkProps (walkSchemaRef pkg k) req ps = .ok fs → FieldsBuilt pkg req ps fs
  | [], fs, h => by simp [walkProps] at h; subst h; exact FieldsBuilt.nil
  | (name, r) :: ps, fs, h => by
    simp only [walkProps] at h
    obtain ⟨t, h1, h2⟩ := obind_ok h
    obtain ⟨fs2, h3, h4⟩ := obind_ok h2
    simp only [Outcome.ok.injEq] at h4
    subst h4
    exact FieldsBuilt.cons ⟨rfl, rfl, ⟨k, h1⟩⟩ (walkProps_built req ps fs2 h3)

theorem fieldsBuilt_names_mem {pkg req} : ∀ {ps : List (String × OSR)} {fs : List Field}, FieldsBuilt pkg req ps fs →
    ∀ b ∈ fs, ∃ p ∈ ps, b.name = p.1
  | _, _, .nil => by intro b hb; cases hb
  | _, _, .cons hx rest => by
    intro b hb
    simp only [List.mem_cons] at hb
    cases hb with
    | inl e => subst e; exact ⟨_, by simp, hx.1⟩
    | inr e => obtain ⟨p, hp, hn⟩ := fieldsBuilt_names_mem rest b e; exact ⟨p, List.mem_cons_of_mem _ hp, hn⟩

theorem sortedKeys_pairwise {pkg req} : ∀ {ps : List (String × OSR)} {fs : List Field},
    sortedKeys ps = true → FieldsBuilt pkg req ps fs →
    fs.Pairwise (fun a b => (!decide (b.name < a.name)) = true)
  | [], _, _, hb => by cases hb; exact List.Pairwise.nil
  | (k, s) :: ps, _, hs, hb => by
    cases hb with
    | cons hf hrest =>
      simp only [sortedKeys, Bool.and_eq_true, List.all_eq_true] at hs
      refine List.Pairwise.cons ?_ (sortedKeys_pairwise hs.2 hrest)
      intro b hbm
      obtain ⟨p, hp, hn⟩ := fieldsBuilt_names_mem hrest b hbm
      have := hs.1 p hp
      simp only [Bool.and_eq_true, decide_eq_true_eq, Bool.not_eq_true', decide_eq_false_iff_not] at this
      rw [hf.1, hn]
      simp [this.2]

theorem sortFields_id {pkg req} {ps : List (String × OSR)} {fs : List Field}
    (hs : sortedKeys ps = true) (hb : FieldsBuilt pkg req ps fs) : sortFields fs = fs :=
  isort_of_pairwise _ (sortedKeys_pairwise hs hb)

/-- name and kind of the members `walkEnum` builds -/
def enumMembers (a : OAttrs) (k : String) (vs : List Val) : List EnumVal :=
  vs.map fun v => { name := if typeIs a "string" then fmtS v else fmtSharpV v, value := v, kind := k }

inductive OView (pkg : String) (cs : Components) : OSR → Ty → Prop
  | ref {ref hv d v} (t : OSR) :
      isRef ref = true → lookupComp cs (lastSegment ref) = some t → targetOK t = true →
      OView pkg cs (.mk ref hv d v) (.ref pkg (lastSegment ref) m0)
  | enum {ref hv d a allOf anyOf oneOf props addl items} (vs : List Val) (k : String) :
      isRef ref = false → a.enum = some vs → vs ≠ [] → a.nullable = false → a.isEmpty = false →
      ((typeIs a "string" = true ∧ k = "string") ∨ (typeIs a "integer" = true ∧ k = "int64")) →
      OView pkg cs (.mk ref hv d (.mk a allOf anyOf oneOf props addl items)) (.enum (enumMembers a k vs) { dflt := a.dflt })
  | string {ref hv d a allOf anyOf oneOf props addl items} :
      isRef ref = false → a.enum = none → typeIs a "string" = true → a.format ≠ "byte" → patternOK a = true → a.isEmpty = false →
      OView pkg cs (.mk ref hv d (.mk a allOf anyOf oneOf props addl items)) (walkString a)
  | integer {ref hv d a allOf anyOf oneOf props addl items} :
      isRef ref = false → a.enum = none → typeIs a "integer" = true → a.isEmpty = false →
      OView pkg cs (.mk ref hv d (.mk a allOf anyOf oneOf props addl items)) (walkInteger a)
  | number {ref hv d a allOf anyOf oneOf props addl items} :
      isRef ref = false → a.enum = none → typeIs a "number" = true → a.isEmpty = false →
      OView pkg cs (.mk ref hv d (.mk a allOf anyOf oneOf props addl items)) (walkNumber a)
  | boolean {ref hv d a allOf anyOf oneOf props addl items} :
      isRef ref = false → a.enum = none → typeIs a "boolean" = true → a.nullable = false → a.isEmpty = false →
      OView pkg cs (.mk ref hv d (.mk a allOf anyOf oneOf props addl items)) (.scalar "bool" .nil [] { dflt := a.dflt })
  | any {ref hv d a allOf anyOf oneOf props addl items} :
      isRef ref = false → a.enum = none → osIsAny (.mk a allOf anyOf oneOf props addl items) = true →
      OView pkg cs (.mk ref hv d (.mk a allOf anyOf oneOf props addl items)) anyTy
  | array {ref hv d a allOf anyOf oneOf props addl} (r' : OSR) (Te : Ty) :
      isRef ref = false → a.enum = none → typeIs a "array" = true → a.nullable = false → a.isEmpty = false →
      noComb a = true → fragR cs r' = true → Builds pkg r' Te →
      OView pkg cs (.mk ref hv d (.mk a allOf anyOf oneOf props addl (.some r'))) (.array Te { dflt := a.dflt })
  | map {ref hv d a allOf anyOf oneOf items} (r' : OSR) (Te : Ty) :
      isRef ref = false → a.enum = none → typeIs a "object" = true → a.nullable = false → a.isEmpty = false →
      noComb a = true → fragR cs r' = true → Builds pkg r' Te →
      OView pkg cs (.mk ref hv d (.mk a allOf anyOf oneOf [] (.some r') items)) (.map stringTy Te m0)
  | struct {ref hv d a allOf anyOf oneOf props items} (fs : List Field) :
      isRef ref = false → a.enum = none → typeIs a "object" = true → a.nullable = false → a.isEmpty = false →
      props ≠ [] → a.addlHas = some false → sortedKeys props = true → fragP cs a.required props = true →
      FieldsBuilt pkg a.required props fs →
      OView pkg cs (.mk ref hv d (.mk a allOf anyOf oneOf props .none items)) (.struct fs [] none m0)

/-- facts every non-reference view shares (what `oavBody` needs to skip the combinators) -/
structure Plain (r : OSR) : Prop where
  noRef : (match r with | .mk ref _ _ _ => isRef ref) = false
  hasValue : (match r with | .mk _ hv _ _ => hv) = true
  lists : (match r with | .mk _ _ _ (.mk _ allOf anyOf oneOf _ _ _) => allOf.isEmpty && anyOf.isEmpty && oneOf.isEmpty) = true

def isRefR : OSR → Bool
  | .mk ref _ _ _ => isRef ref

theorem typeIs_excl {a : OAttrs} {t t' : String} (h : typeIs a t = true) (hne : t ≠ t') : typeIs a t' = false := by
  unfold typeIs at h ⊢
  split at h
  · rename_i t0 _
    simp only [decide_eq_true_eq] at h
    subst h
    simp [hne]
  · cases h

theorem oview_of (pkg : String) (cs : Components) (r : OSR) (T : Ty)
    (hf : fragR cs r = true) (hb : Builds pkg r T) : OView pkg cs r T ∧ (isRefR r = false → Plain r) := by
  obtain ⟨k, hw⟩ := hb
  cases k with
  | zero => simp [walkSchemaRef] at hw
  | succ k =>
  obtain ⟨ref, hv, d, v⟩ := r
  rw [fragR] at hf
  rw [walkSchemaRef] at hw
  by_cases hr : isRef ref = true
  · simp only [hr, if_true] at hf hw
    simp at hw; subst hw
    unfold refOK at hf
    cases hl : lookupComp cs (lastSegment ref) with
    | none => simp [hl] at hf
    | some t =>
      simp only [hl] at hf
      exact ⟨OView.ref t hr hl hf, by intro h; simp [isRefR, hr] at h⟩
  · have hr' : isRef ref = false := by simpa using hr
    simp only [hr', Bool.false_eq_true, if_false, Bool.and_eq_true] at hf hw
    obtain ⟨hhv, hfs⟩ := hf
    simp only [hhv, Bool.not_true, Bool.false_eq_true, if_false] at hw
    obtain ⟨a, allOf, anyOf, oneOf, props, addl, items⟩ := v
    rw [fragS] at hfs
    simp only [Bool.and_eq_true, Bool.not_eq_true', Bool.or_eq_true] at hfs
    unfold kindOK at hfs
    obtain ⟨⟨⟨⟨⟨⟨⟨h1, h2⟩, h3⟩, l1⟩, l2⟩, l3⟩, hemp⟩, hkind⟩ := hfs
    have hplain : Plain (.mk ref hv d (.mk a allOf anyOf oneOf props addl items)) :=
      ⟨hr', hhv, by simp [l1, l2, l3]⟩
    refine ⟨?_, fun _ => hplain⟩
    unfold walkDefinitions at hw
    simp only [h1, h2, h3, Bool.false_eq_true, if_false] at hw
    have hncmb : ∀ he : a.enum = none, noComb a = true := by intro he; simp [noComb, h1, h2, h3, he]
    have hnotany : ∀ {t : String}, a.enum = none → typeIs a t = true → (t = "string" ∨ t = "array" ∨ t = "boolean" ∨ t = "integer" ∨ t = "number") →
        a.isEmpty = false := by
      intro t he ht hcases
      cases hemp with
      | inl h => exact h
      | inr h =>
        exfalso
        simp only [osIsAny, Bool.and_eq_true, Bool.not_eq_true'] at h
        rcases hcases with e | e | e | e | e <;> subst e
        · rw [h.1.1.1.1.1.2] at ht; cases ht
        · rw [h.1.1.1.1.2] at ht; cases ht
        · rw [h.1.1.1.2] at ht; cases ht
        · rw [h.1.1.2] at ht; cases ht
        · rw [h.1.2] at ht; cases ht
    cases he : a.enum with
    | some vs =>
      simp only [he, Bool.and_eq_true, Bool.not_eq_true', Bool.or_eq_true] at hkind hw
      obtain ⟨⟨hne, hty⟩, hnn⟩ := hkind
      have hemp' : a.isEmpty = false := by
        cases hemp with
        | inl h => exact h
        | inr h => simp [osIsAny, noComb, he] at h
      unfold walkEnum at hw
      have hvs : vs ≠ [] := by intro c; subst c; simp at hne
      cases hty with
      | inl hs =>
        have : ∃ t0, a.types = some [t0] ∧ t0 = "string" := by
          unfold typeIs at hs; split at hs
          · rename_i t0 e; exact ⟨t0, e, by simpa using hs⟩
          · cases hs
        obtain ⟨t0, e, e2⟩ := this
        subst e2
        simp [e, getEnumType, obind] at hw
        subst hw
        exact OView.enum vs "string" hr' he hvs hnn hemp' (Or.inl ⟨hs, rfl⟩)
      | inr hi =>
        have : ∃ t0, a.types = some [t0] ∧ t0 = "integer" := by
          unfold typeIs at hi; split at hi
          · rename_i t0 e; exact ⟨t0, e, by simpa using hi⟩
          · cases hi
        obtain ⟨t0, e, e2⟩ := this
        subst e2
        simp [e, getEnumType, obind] at hw
        subst hw
        exact OView.enum vs "int64" hr' he hvs hnn hemp' (Or.inr ⟨hi, rfl⟩)
    | none =>
      simp only [he] at hkind hw
      by_cases t1 : typeIs a "string" = true
      · simp only [t1, if_true, Bool.and_eq_true, decide_eq_true_eq] at hkind hw
        simp at hw; subst hw
        exact OView.string hr' he t1 (by simpa using hkind.1) hkind.2 (hnotany he t1 (Or.inl rfl))
      · have t1' : typeIs a "string" = false := by simpa using t1
        simp only [t1', Bool.false_eq_true, if_false] at hkind hw
        by_cases t2 : typeIs a "integer" = true
        · have o1 := typeIs_excl t2 (t' := "object") (by decide)
          have o2 := typeIs_excl t2 (t' := "array") (by decide)
          have o3 := typeIs_excl t2 (t' := "boolean") (by decide)
          simp only [o1, o2, o3, t2, Bool.false_eq_true, if_false, if_true] at hw
          simp at hw; subst hw
          exact OView.integer hr' he t2 (hnotany he t2 (Or.inr (Or.inr (Or.inr (Or.inl rfl)))))
        · have t2' : typeIs a "integer" = false := by simpa using t2
          by_cases t3 : typeIs a "number" = true
          · have o1 := typeIs_excl t3 (t' := "object") (by decide)
            have o2 := typeIs_excl t3 (t' := "array") (by decide)
            have o3 := typeIs_excl t3 (t' := "boolean") (by decide)
            simp only [o1, o2, o3, t2', t3, Bool.false_eq_true, if_false, if_true] at hw
            simp at hw; subst hw
            exact OView.number hr' he t3 (hnotany he t3 (Or.inr (Or.inr (Or.inr (Or.inr rfl)))))
          · have t3' : typeIs a "number" = false := by simpa using t3
            simp only [t2', t3', Bool.or_self, Bool.false_eq_true, if_false] at hkind
            by_cases t4 : typeIs a "boolean" = true
            · have o1 := typeIs_excl t4 (t' := "object") (by decide)
              have o2 := typeIs_excl t4 (t' := "array") (by decide)
              simp only [o1, o2, t4, Bool.false_eq_true, if_false, if_true] at hw hkind
              simp at hw; subst hw
              exact OView.boolean hr' he t4 (by simpa using hkind) (hnotany he t4 (Or.inr (Or.inr (Or.inl rfl))))
            · have t4' : typeIs a "boolean" = false := by simpa using t4
              simp only [t4', Bool.false_eq_true, if_false] at hkind
              by_cases t5 : typeIs a "array" = true
              · have o1 := typeIs_excl t5 (t' := "object") (by decide)
                simp only [o1, t5, Bool.false_eq_true, if_false, if_true, Bool.and_eq_true, Bool.not_eq_true'] at hw hkind
                obtain ⟨⟨hnn, hfo⟩, hsome⟩ := hkind
                cases items with
                | none => simp [isSome'] at hsome
                | some r' =>
                  simp only at hw
                  obtain ⟨t, h4, h5⟩ := obind_ok hw
                  simp at h5; subst h5
                  exact OView.array r' t hr' he t5 hnn (hnotany he t5 (Or.inr (Or.inl rfl))) (hncmb he) (by simpa [fragO] using hfo) ⟨k, h4⟩
              · have t5' : typeIs a "array" = false := by simpa using t5
                simp only [t5', Bool.false_eq_true, if_false] at hkind
                by_cases t6 : typeIs a "object" = true
                · simp only [t6, if_true] at hw hkind
                  unfold walkObject at hw
                  have hemp' : ∀ (hnotany' : osIsAny (.mk a allOf anyOf oneOf props addl items) = false), a.isEmpty = false := by
                    intro h'
                    cases hemp with
                    | inl h => exact h
                    | inr h => rw [h'] at h; cases h
                  by_cases hpe : props.isEmpty = true
                  · simp only [hpe, if_true] at hw hkind
                    have hp0 : props = [] := by simpa using hpe
                    subst hp0
                    cases addl with
                    | none =>
                      simp at hw; subst hw
                      exact OView.any hr' he (by simp [osIsAny, noComb, h1, h2, h3, he, t1', t2', t3', t4', t5'])
                    | some r' =>
                      simp only [isSome', Bool.not_true, Bool.false_or, Bool.and_eq_true, Bool.not_eq_true', fragO] at hkind
                      obtain ⟨t, h4, h5⟩ := obind_ok hw
                      simp at h5; subst h5
                      exact OView.map r' t hr' he t6 hkind.1 (hemp' (by simp [osIsAny, t6])) (hncmb he) hkind.2 ⟨k, h4⟩
                  · simp only [hpe, Bool.false_eq_true, if_false, Bool.and_eq_true, Bool.not_eq_true', beq_iff_eq] at hw hkind
                    obtain ⟨⟨⟨⟨hnn, hah⟩, hns⟩, hsk⟩, hfp⟩ := hkind
                    obtain ⟨fs, h4, h5⟩ := obind_ok hw
                    simp at h5; subst h5
                    have hbuilt := walkProps_built a.required props fs h4
                    rw [sortFields_id hsk hbuilt]
                    cases addl with
                    | some _ => simp [isSome'] at hns
                    | none =>
                      have hpe' : props.isEmpty = false := by simpa using hpe
                      exact OView.struct fs hr' he t6 hnn (hemp' (by simp [osIsAny, t6, hpe'])) (by intro c; simp [c] at hpe) hah hsk hfp hbuilt
                · have t6' : typeIs a "object" = false := by simpa using t6
                  simp only [t2', t3', t4', t5', t6', Bool.false_eq_true, if_false] at hw
                  simp at hw; subst hw
                  exact OView.any hr' he (by simp [osIsAny, noComb, h1, h2, h3, he, t1', t2', t3', t4', t5', t6'])

end Cog.Front.OpenApi
