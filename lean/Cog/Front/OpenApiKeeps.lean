/-
  What the OpenAPI front-end KEEPS of a typed scalar property of an object component — `default` (raw Go value: float64 for
  JSON numbers), the constant of a `^literal$` pattern, `nullable`, the constraint list of utils.go `getConstraints`
  (`minLength` only when > 0, `maxLength`, `multipleOf`, `>=`/`>`, `<=`/`<`; bounds int64 for `type: integer`, float64
  otherwise), the `date-time` hint.  Same structure as Cog/Front/JsonSchemaKeeps.lean; the chain lemmas and the glue with
  C10 / C08 (Cog/Front/Keeps{Defaults,Constraints}.lean) are format-independent.
-/
import Cog.Front.OpenApiSoundMain
import Cog.Front.KeepsConstraints
namespace Cog.Front.OpenApi
open Cog.IR Cog.Sem Cog.Sem.Src Cog.Passes
open Cog.Front.JsonSchema (obind obind_ok m0 anyTy stringTy isort_perm)
open Cog.Front.Keeps (SameFields)

/-- schema without combinator and `enum` -/
def plainAttrs (a : OAttrs) : Bool := !a.hasAllOf && !a.hasAnyOf && !a.hasOneOf && a.enum.isNone

/-- an object component with properties, read by `walkObject` as a struct -/
def isObjectNode : OSR → Bool
  | .mk ref hv _ (.mk a _ _ _ props _ _) => !isRef ref && hv && plainAttrs a && typeIs a "object" && !props.isEmpty

def scalarTypeName (t : String) : Bool := t = "string" || t = "integer" || t = "number" || t = "boolean"

/-- a typed scalar schema (`type` string / integer / number / boolean; no `$ref`, combinator or `enum`) -/
def scalarNode : OSR → Option String
  | .mk ref hv _ (.mk a _ _ _ _ _ _) =>
    if !isRef ref && hv && plainAttrs a then
      (match a.types with | some [t] => if scalarTypeName t then some t else none | _ => none)
    else none

/-- the IR type `walkString` / `walkInteger` / `walkNumber` / `walkBoolean` build -/
def scalarOf (a : OAttrs) (t : String) : Ty :=
  if t = "string" then walkString a else if t = "integer" then walkInteger a
  else if t = "number" then walkNumber a else .scalar "bool" .nil [] { dflt := a.dflt }

def attrsOf : OSR → OAttrs
  | .mk _ _ _ (.mk a _ _ _ _ _ _) => a

def propsOf : OSR → List (String × OSR)
  | .mk _ _ _ (.mk _ _ _ _ props _ _) => props

theorem plainAttrs_facts {a : OAttrs} (h : plainAttrs a = true) :
    a.hasAllOf = false ∧ a.hasAnyOf = false ∧ a.hasOneOf = false ∧ a.enum = none := by
  simp only [plainAttrs, Bool.and_eq_true, Bool.not_eq_true', Option.isNone_iff_eq_none] at h
  exact ⟨h.1.1.1, h.1.1.2, h.1.2, h.2⟩

theorem typeIs_of_types {a : OAttrs} {t : String} (h : a.types = some [t]) : typeIs a t = true := by
  simp [typeIs, h]

theorem builds_scalar {pkg ref hv d a allOf anyOf oneOf props addl items t T}
    (hn : scalarNode (.mk ref hv d (.mk a allOf anyOf oneOf props addl items)) = some t)
    (hb : Builds pkg (.mk ref hv d (.mk a allOf anyOf oneOf props addl items)) T) : T = scalarOf a t := by
  simp only [scalarNode] at hn
  split at hn
  · rename_i hc
    simp only [Bool.and_eq_true, Bool.not_eq_true'] at hc
    obtain ⟨⟨hr, hhv⟩, hpa⟩ := hc
    obtain ⟨h1, h2, h3, h4⟩ := plainAttrs_facts hpa
    cases hty : a.types with
    | none => simp [hty] at hn
    | some ts =>
      cases ts with
      | nil => simp [hty] at hn
      | cons t0 rest =>
        cases rest with
        | cons _ _ => simp [hty] at hn
        | nil =>
          simp only [hty] at hn
          split at hn
          · rename_i hst
            cases hn
            have hti := typeIs_of_types hty
            obtain ⟨k, hw⟩ := hb
            cases k with
            | zero => simp [walkSchemaRef] at hw
            | succ k =>
              rw [walkSchemaRef] at hw
              simp only [hr, hhv, Bool.false_eq_true, if_false, Bool.not_true] at hw
              unfold walkDefinitions at hw
              simp only [h1, h2, h3, h4, Bool.false_eq_true, if_false] at hw
              simp only [scalarTypeName, Bool.or_eq_true, decide_eq_true_eq] at hst
              rcases hst with ((e | e) | e) | e <;> subst e
              · simp [hti] at hw; rw [← hw]; simp [scalarOf]
              · simp [hti, typeIs_excl hti (t' := "string") (by decide), typeIs_excl hti (t' := "object") (by decide),
                  typeIs_excl hti (t' := "array") (by decide), typeIs_excl hti (t' := "boolean") (by decide)] at hw
                rw [← hw]; simp [scalarOf]
              · simp [hti, typeIs_excl hti (t' := "string") (by decide), typeIs_excl hti (t' := "object") (by decide),
                  typeIs_excl hti (t' := "array") (by decide), typeIs_excl hti (t' := "boolean") (by decide),
                  typeIs_excl hti (t' := "integer") (by decide)] at hw
                rw [← hw]; simp [scalarOf]
              · simp [hti, typeIs_excl hti (t' := "string") (by decide), typeIs_excl hti (t' := "object") (by decide),
                  typeIs_excl hti (t' := "array") (by decide)] at hw
                rw [← hw]; simp [scalarOf]
          · cases hn
  · cases hn

theorem builds_object {pkg ref hv d a allOf anyOf oneOf props addl items T}
    (hn : isObjectNode (.mk ref hv d (.mk a allOf anyOf oneOf props addl items)) = true)
    (hb : Builds pkg (.mk ref hv d (.mk a allOf anyOf oneOf props addl items)) T) :
    ∃ fs, T = .struct (sortFields fs) [] none m0 ∧ FieldsBuilt pkg a.required props fs := by
  simp only [isObjectNode, Bool.and_eq_true, Bool.not_eq_true'] at hn
  obtain ⟨⟨⟨⟨hr, hhv⟩, hpa⟩, hto⟩, hpe⟩ := hn
  obtain ⟨h1, h2, h3, h4⟩ := plainAttrs_facts hpa
  obtain ⟨k, hw⟩ := hb
  cases k with
  | zero => simp [walkSchemaRef] at hw
  | succ k =>
    rw [walkSchemaRef] at hw
    simp only [hr, hhv, Bool.false_eq_true, if_false, Bool.not_true] at hw
    unfold walkDefinitions at hw
    simp only [h1, h2, h3, h4, Bool.false_eq_true, if_false, typeIs_excl hto (t' := "string") (by decide), hto, if_true] at hw
    unfold walkObject at hw
    simp only [hpe, Bool.false_eq_true, if_false] at hw
    obtain ⟨fs, h6, h7⟩ := obind_ok hw
    simp at h7
    exact ⟨fs, h7.symm, walkProps_built a.required props fs h6⟩

theorem fieldsBuilt_mem {pkg req} : ∀ {ps : List (String × OSR)} {fs : List Field}, FieldsBuilt pkg req ps fs →
    ∀ {p : String × OSR}, p ∈ ps → ∃ f ∈ fs, f.name = p.1 ∧ f.required = req.contains p.1 ∧ Builds pkg p.2 f.ty
  | _, _, .nil, _, h => by cases h
  | _, _, .cons hx rest, p, h => by
    simp only [List.mem_cons] at h
    cases h with
    | inl e => subst e; exact ⟨_, by simp, hx⟩
    | inr e => obtain ⟨f, hf, r⟩ := fieldsBuilt_mem rest e; exact ⟨f, List.mem_cons_of_mem _ hf, r⟩

/-- the object the front-end declares for an object component -/
theorem keeps_object (pkg : String) (fuel : Nat) (cs : Components) (S : Schemas) (hk : keysNodupC cs = true)
    (hS : frontEnd pkg fuel cs = .ok S) {name : String} {r : OSR} (hl : lookupComp cs name = some r)
    (hobj : isObjectNode r = true) :
    ∃ o fs, Schemas.locateObject S pkg name = some o ∧ o.ty = .struct (sortFields fs) [] none m0 ∧
      o.selfPkg = pkg ∧ o.selfName = name ∧ FieldsBuilt pkg (attrsOf r).required (propsOf r) fs := by
  have W := frontEnd_spec pkg fuel cs S hk hS
  have hs := W.has name r hl
  cases ho : Schemas.locateObject S pkg name with
  | none => simp [ho] at hs
  | some o =>
    obtain ⟨r', h1, h2⟩ := W.obj name o ho
    rw [hl] at h1; cases h1
    obtain ⟨hsp, hsn⟩ := W.self name o ho
    obtain ⟨ref, hv, d, ⟨a, allOf, anyOf, oneOf, props, addl, items⟩⟩ := r
    obtain ⟨fs, hT, hbuilt⟩ := builds_object hobj h2
    exact ⟨o, fs, rfl, hT, hsp, hsn, hbuilt⟩

/-- THE FRONT-END KEEPS a typed scalar property of an object component -/
theorem keeps_property (pkg : String) (fuel : Nat) (cs : Components) (S : Schemas) (hk : keysNodupC cs = true)
    (hS : frontEnd pkg fuel cs = .ok S) {name : String} {r : OSR} (hl : lookupComp cs name = some r)
    (hobj : isObjectNode r = true) {p : String × OSR} (hp : p ∈ propsOf r) {t : String} (hsc : scalarNode p.2 = some t) :
    ∃ o fs f, Schemas.locateObject S pkg name = some o ∧ o.ty = .struct (sortFields fs) [] none m0 ∧
      o.selfPkg = pkg ∧ o.selfName = name ∧ f ∈ fs ∧ f.name = p.1 ∧
      f.required = (attrsOf r).required.contains p.1 ∧ f.ty = scalarOf (attrsOf p.2) t ∧
      FieldsBuilt pkg (attrsOf r).required (propsOf r) fs := by
  obtain ⟨o, fs, ho, hty, hsp, hsn, hbuilt⟩ := keeps_object pkg fuel cs S hk hS hl hobj
  obtain ⟨f, hf, hname, hreq, hbf⟩ := fieldsBuilt_mem hbuilt (p := p) hp
  obtain ⟨k, sk⟩ := p
  obtain ⟨ref, hv, d, ⟨a, allOf, anyOf, oneOf, props, addl, items⟩⟩ := sk
  exact ⟨o, fs, f, ho, hty, hsp, hsn, hf, hname, hreq, builds_scalar hsc hbf, hbuilt⟩

theorem scalarOf_isScalar (a : OAttrs) (t : String) : (scalarOf a t).isScalar = true := by
  unfold scalarOf walkString walkInteger walkNumber
  split
  · rfl
  · split
    · rfl
    · split <;> rfl

/-- the fields of a FLAT object component, from the source keywords alone -/
def rawFields (req : List String) : List (String × OSR) → Option (List Field)
  | [] => some []
  | p :: ps =>
    match scalarNode p.2, rawFields req ps with
    | some t, some fs => some ({ name := p.1, ty := scalarOf (attrsOf p.2) t, required := req.contains p.1 } :: fs)
    | _, _ => none

theorem fieldsBuilt_same {pkg req} : ∀ {ps : List (String × OSR)} {fs gs : List Field},
    FieldsBuilt pkg req ps fs → rawFields req ps = some gs → SameFields fs gs
  | _, _, gs, .nil, h => by simp [rawFields] at h; subst h; exact .nil
  | _, _, gs, .cons (p := p) (f := f) (ps := ps) hx rest, h => by
    simp only [rawFields] at h
    cases hsc : scalarNode p.2 with
    | none => simp [hsc] at h
    | some t =>
      cases hr : rawFields req ps with
      | none => simp [hsc, hr] at h
      | some gs' =>
        rw [hsc, hr] at h
        simp only [Option.some.injEq] at h
        subst h
        obtain ⟨pk, sk⟩ := p
        obtain ⟨ref, hv, d, ⟨a, allOf, anyOf, oneOf, props, addl, items⟩⟩ := sk
        have hty : f.ty = scalarOf a t := builds_scalar hsc hx.2.2
        exact .cons hx.1 hty hx.2.1 (by rw [hty]; exact scalarOf_isScalar a t) (fieldsBuilt_same rest hr)

end Cog.Front.OpenApi
