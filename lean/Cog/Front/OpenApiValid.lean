/-
  C01 (b) — validation semantics of an OpenAPI 3.0 component schema as kin-openapi's `Schema.VisitJSON` decides
  it (v0.128, default settings + format validation), on the value `OSR` / `OS` of Cog/Front/OpenApi.lean.
  Core Lean only; compared with the library on every document of the `c01-front-oa` stream.

  Modelled: `$ref` (through the component table), `nullable` (null is accepted first), the empty-schema
  shortcut (`isEmpty`, computed by the library and carried as data), `oneOf` (exactly one) / `anyOf` / `allOf`
  and the rule that a null accepted by a branch ends the visit, `enum`, `type` (absent = every type), integers
  (`int32` range), `minimum` / `maximum` / `exclusive…` / `multipleOf` (exact rationals), `minLength` /
  `maxLength` (runes), constant `pattern`s `^text$`, `format: date-time` (oracle `fmt`), `items`, `properties`,
  `required`, `additionalProperties` (absent or true = open, false = closed, schema).  Not modelled (listed in
  `OAttrs.unmodelled` / `patternModelled`): `not`, discriminators, item / property counts, `uniqueItems`,
  other patterns and formats.  Numbers are exact (quarters): kin-openapi compares float64, so documents holding
  integers beyond 2^53 are not compared by the check.

  `x = true` is the strict reading (hypothesis of the soundness theorem), as for JSON Schema: S1 integers in the
  int64 range, S2 no empty optional collection / collection behind a reference, S3 `any` without integers ≥ 2^53.
-/
import Cog.Front.OpenApi
import Cog.Sem.SrcDen
namespace Cog.Front.OpenApi
open Cog.IR Cog.Sem
open Cog.Sem.Src (valMatches)

def lookupComp (cs : Components) (name : String) : Option OSR :=
  match cs with
  | [] => none
  | (n, r) :: rest => if n = name then some r else lookupComp rest name

/-- `Type.Permits(t)` -/
def permits (a : OAttrs) (t : String) : Bool :=
  match a.types with
  | none => true
  | some ts => ts.contains t

/-- `PermitsNull` -/
def permitsNull (a : OAttrs) : Bool :=
  a.nullable || (match a.types with | some ts => ts.contains "null" | none => false)

def regexMetaOrEscape (c : Char) : Bool :=
  Cog.Front.JsonSchema.regexMeta.contains c || c = '\\' || c = '^' || c = '$'

/-- a pattern `^text$` whose text has no regular-expression syntax: matches exactly `text` -/
def constPattern (p : String) : Option String :=
  if Cog.Front.JsonSchema.regexMatchesConstantString p &&
      !((Cog.Front.JsonSchema.constantStringFromRegex p).toList.any regexMetaOrEscape)
  then some (Cog.Front.JsonSchema.constantStringFromRegex p) else none

def patternModelled (a : OAttrs) : Bool := a.pattern = "" || (constPattern a.pattern).isSome

def inInt64 (n : Int) : Bool := decide (-9223372036854775808 ≤ n ∧ n ≤ 9223372036854775807)
def inInt32 (n : Int) : Bool := decide (-2147483648 ≤ n ∧ n ≤ 2147483647)

def optF (o : Option F64) (f : F64 → Bool) : Bool := match o with | some b => f b | none => true

/-- `visitJSONNumber` on q/4 -/
def numberOK (x : Bool) (a : OAttrs) (q : Int) : Bool :=
  let requireInteger := permits a "integer" && !permits a "number"
  (if requireInteger then decide (q % 4 = 0) && (a.format ≠ "int32" || inInt32 (q / 4)) && (!x || inInt64 (q / 4))
   else permits a "integer" || permits a "number") &&
  optF a.min (fun b => if a.exclusiveMin then decide (4 * b.num < q * b.den) else decide (4 * b.num ≤ q * b.den)) &&
  optF a.max (fun b => if a.exclusiveMax then decide (q * b.den < 4 * b.num) else decide (q * b.den ≤ 4 * b.num)) &&
  optF a.multipleOf (fun b => b.num ≠ 0 && decide ((q * b.den) % (4 * b.num) = 0))

/-- `visitJSONString` -/
def stringOK (fmt : String → String → Bool) (a : OAttrs) (s : String) : Bool :=
  permits a "string" &&
  (a.minLength == 0 || decide (a.minLength ≤ s.length)) &&
  (match a.maxLength with | some n => decide (s.length ≤ n) | none => true) &&
  (match constPattern a.pattern with | some c => s == c | none => true) &&
  (a.format ≠ "date-time" || fmt "date-time" s)

def enumOK (a : OAttrs) (j : Json) : Bool :=
  match a.enum with
  | some (v :: vs) => (v :: vs).any fun w => valMatches w j
  | _ => true

def countTrue : List Bool → Nat
  | [] => 0
  | b :: bs => (if b then 1 else 0) + countTrue bs

def propsGet (props : List (String × OSR)) (k : String) : Option OSR :=
  match props with
  | [] => none
  | (n, r) :: rest => if n = k then some r else propsGet rest k

/-- the generator reads the schema as an array or a map / as `any` (one level, as in the JSON Schema development) -/
def noComb (a : OAttrs) : Bool := !a.hasAllOf && !a.hasAnyOf && !a.hasOneOf && a.enum.isNone

def osIsColl : OS → Bool
  | .mk a _ _ _ props addl _ =>
    noComb a && (typeIs a "array" || (typeIs a "object" && props.isEmpty && (match addl with | .some _ => true | .none => false)))

def osIsAny : OS → Bool
  | .mk a _ _ _ props addl _ =>
    noComb a && !typeIs a "string" && !typeIs a "array" && !typeIs a "boolean" && !typeIs a "integer" && !typeIs a "number" &&
    (!typeIs a "object" || (props.isEmpty && (match addl with | .none => true | .some _ => false)))

def osrIsColl : OSR → Bool
  | .mk ref _ _ v => !isRef ref && osIsColl v

def refTarget (comps : Components) : OSR → Option OSR
  | .mk ref _ _ _ => if isRef ref then lookupComp comps (lastSegment ref) else none

/-- the type-directed part of `visitJSON` (`visitJSONBoolean` / `Number` / `String` / `Array` / `Object`) -/
def typedPart (x : Bool) (fmt : String → String → Bool) (v : OSR → Json → Bool) (a : OAttrs)
    (props : List (String × OSR)) (addl items : OOpt) (j : Json) : Bool :=
  match j with
  | .null => false
  | .bool _ => permits a "boolean"
  | .num q => numberOK x a q
  | .str s => stringOK fmt a s
  | .arr xs => permits a "array" && (match items with | .some r => xs.all (v r) | .none => true)
  | .obj ms =>
    permits a "object" &&
    ms.all (fun kv =>
      match propsGet props kv.1 with
      | some r => v r kv.2 && !(x && !a.required.contains kv.1 && osrIsColl r && isEmptyColl kv.2)
      | none =>
        (match a.addlHas with
         | some false => false
         | _ => (match addl with | .some r => v r kv.2 | .none => true))) &&
    a.required.all (fun r => (Json.lookup r ms).isSome)

/-- one level of `visitJSON`; `v` validates schema references -/
def oavBody (x : Bool) (fmt : String → String → Bool) (v : OSR → Json → Bool) : OS → Json → Bool
  | .mk a allOf anyOf oneOf props addl items, j =>
    if j.isNull && permitsNull a then true
    else if a.isEmpty then !j.isNull && !(x && !anyExact j)
    else
      (oneOf.isEmpty || countTrue (oneOf.map fun r => v r j) == 1) &&
      (anyOf.isEmpty || anyOf.any (fun r => v r j)) &&
      allOf.all (fun r => v r j) &&
      (if (!oneOf.isEmpty || !anyOf.isEmpty || !allOf.isEmpty) && j.isNull then true
       else
        enumOK a j &&
        !(x && osIsAny (.mk a allOf anyOf oneOf props addl items) && !anyExact j) &&
        typedPart x fmt v a props addl items j)

/-- `SchemaRef` validation: a reference is followed through the component table -/
def oav (x : Bool) (fmt : String → String → Bool) (comps : Components) : Nat → OSR → Json → Bool
  | 0, _, _ => false
  | n + 1, .mk ref hasValue _ value, j =>
    if isRef ref then
      match lookupComp comps (lastSegment ref) with
      | some t => oav x fmt comps n t j && !(x && (match t with | .mk r _ _ tv => !isRef r && osIsColl tv) && isEmptyColl j)
      | none => false
    else if !hasValue then false
    else oavBody x fmt (oav x fmt comps n) value j

def oaValid (fmt : String → String → Bool) (comps : Components) (n : Nat) (r : OSR) (j : Json) : Bool := oav false fmt comps n r j
def oaValidX (fmt : String → String → Bool) (comps : Components) (n : Nat) (r : OSR) (j : Json) : Bool := oav true fmt comps n r j

/-- a reference to component `name` -/
def refTo (name : String) : OSR := .mk ("#/components/schemas/" ++ name) true "" emptyOS

/-! ### every keyword is modelled (side condition of the comparison with the library) -/

mutual
def modelledS : OS → Bool
  | .mk a allOf anyOf oneOf props addl items =>
    a.unmodelled.isEmpty && patternModelled a && modelledL allOf && modelledL anyOf && modelledL oneOf &&
    modelledP props && modelledO addl && modelledO items
def modelledR : OSR → Bool
  | .mk _ _ _ v => modelledS v
def modelledL : List OSR → Bool
  | [] => true
  | r :: rs => modelledR r && modelledL rs
def modelledP : List (String × OSR) → Bool
  | [] => true
  | (_, r) :: ps => modelledR r && modelledP ps
def modelledO : OOpt → Bool
  | .none => true
  | .some r => modelledR r
end

def modelledComps (cs : Components) : Bool := cs.all fun c => modelledR c.2

end Cog.Front.OpenApi
