/-
  C01 (b) — parser soundness of the JSON Schema front-end: the induction (`sound_core`) and the theorem
  about `frontEnd` (`parser_sound`).
-/
import Cog.Front.JsonSchemaSound
namespace Cog.Front.JsonSchema
open Cog.IR Cog.Sem Cog.Sem.Src Cog.Passes

/-! ### small facts about `jsv` -/

theorem jsv_null {fmt defs n x j} (hn : isNullS x = true) (h : jsv true fmt defs n x j = true) : j = .null := by
  cases n with
  | zero => simp [jsv] at h
  | succ n =>
    obtain ⟨a, oneOf, anyOf, allOf, props, addl, items, items2020⟩ := x
    have P := jsv_parts h
    simp only [isNullS, Bool.and_eq_true, beq_iff_eq] at hn
    have h1 := P.pTypes
    rw [hn.2] at h1
    have h2 := typesOK_single h1
    cases j <;> simp_all [typeOK, Json.isNull]

theorem typeOK_den {t : String} {j : Json} (ht : scalarTypeName t = true) (h : typeOK true t j = true) :
    denScalar (jsKind t) j = true := by
  simp only [scalarTypeName, Bool.or_eq_true, decide_eq_true_eq] at ht
  rcases ht with ((e | e) | e) | e <;> subst e
  · cases j <;> simp_all [typeOK, jsKind, denScalar]
  · cases j <;> simp_all [typeOK, jsKind, denScalar]
  · cases j <;> simp_all [typeOK, jsKind, denScalar]
  · cases j with
    | num q =>
      simp only [typeOK, Bool.and_eq_true, decide_eq_true_eq, Bool.not_true, Bool.false_or, inInt64] at h
      simp at h
      exact denScalar_int64 q h.1 h.2
    | null | bool _ | str _ | arr _ | obj _ => simp [typeOK] at h

theorem builds_empty (pkg : String) (defs : Defs) : Builds pkg defs emptyJS anyTy :=
  ⟨1, {}, {}, by simp [walkDefinition, emptyJS, addlIsNone]⟩

theorem frag_empty (defs : Defs) : frag defs true emptyJS = true := by
  rw [emptyJS, frag]
  simp [jsIsAny, noCombinator, addlIsNone]

/-! ### enums -/

theorem enum_sound {vs : List JV} {j : Json} (hok : enumValsOK vs = true)
    (hany : (vs.any fun v => jvMatches v j) = true) (kind : String)
    (hk : ∀ v0 rest, vs = v0 :: rest → kind = enumKindOf v0) :
    denScalar kind j = true ∧
    enumHas (vs.map fun v => { name := v.fmtV, value := unwrapJSONNumber v, kind := kind }) j = true := by
  obtain ⟨w, hw, hm⟩ := List.any_eq_true.mp hany
  cases vs with
  | nil => simp [enumValsOK] at hok
  | cons v0 rest =>
    have hkind := hk v0 rest rfl
    simp only [enumValsOK, Bool.or_eq_true, List.all_eq_true] at hok
    have hmem : enumHas ((v0 :: rest).map fun v => ({ name := v.fmtV, value := unwrapJSONNumber v, kind := kind } : EnumVal)) j = true →
        True := fun _ => trivial
    cases hok with
    | inl hs =>
      have h0 := hs v0 (by simp)
      have hws := hs w hw
      cases v0 with
      | str s0 =>
        cases w with
        | str s =>
          cases j with
          | str s' =>
            simp only [jvMatches, beq_iff_eq] at hm
            subst hm
            refine ⟨by rw [hkind]; exact denScalar_string s, ?_⟩
            simp only [enumHas, List.any_map, List.any_eq_true]
            exact ⟨.str s, hw, by simp [unwrapJSONNumber, JV.toVal, valMatches]⟩
          | null | bool _ | num _ | arr _ | obj _ => simp [jvMatches] at hm
        | null | bool _ | num _ _ | arr _ | obj _ => simp [isStrV] at hws
      | null | bool _ | num _ _ | arr _ | obj _ => simp [isStrV] at h0
    | inr hi =>
      have h0 := hi v0 (by simp)
      have hwi := hi w hw
      cases v0 with
      | num t0 f0 =>
        cases w with
        | num t f =>
          simp only [isIntV, Option.isSome_iff_exists] at hwi
          obtain ⟨n, hn⟩ := hwi
          cases j with
          | num q =>
            simp only [jvMatches, hn, beq_iff_eq] at hm
            subst hm
            refine ⟨by rw [hkind]; exact denScalar_int64_of_mul n (parseInt64_range hn), ?_⟩
            simp only [enumHas, List.any_map, List.any_eq_true]
            exact ⟨.num t f, hw, by simp [unwrapJSONNumber, hn, valMatches]⟩
          | null | bool _ | str _ | arr _ | obj _ => simp [jvMatches] at hm
        | null | bool _ | str _ | arr _ | obj _ => simp [isIntV] at hwi
      | null | bool _ | str _ | arr _ | obj _ => simp [isIntV] at h0

/-! ### struct members -/

theorem fieldsBuilt_names {pkg defs req} : ∀ {ps : List (String × JS)} {fs : List Field},
    FieldsBuilt pkg defs req ps fs → fs.map (·.name) = ps.map (·.1)
  | _, _, .nil => rfl
  | _, _, .cons h rest => by simp [h.1, fieldsBuilt_names rest]

theorem sortedKeys_namesNodup : ∀ {ps : List (String × JS)}, sortedKeys ps = true → namesNodup (ps.map (·.1)) = true
  | [], _ => rfl
  | (k, s) :: rest, h => by
    simp only [sortedKeys, Bool.and_eq_true, List.all_eq_true] at h
    simp only [List.map_cons, namesNodup, Bool.and_eq_true, Bool.not_eq_true']
    refine ⟨?_, sortedKeys_namesNodup h.2⟩
    cases hc : (rest.map (·.1)).contains k with
    | false => rfl
    | true =>
      obtain ⟨p, hp, e⟩ := List.mem_map.mp (List.contains_iff_mem.mp hc)
      have := h.1 p hp
      simp only [e, Bool.and_eq_true, decide_eq_true_eq, Bool.not_eq_true', decide_eq_false_iff_not] at this
      exact absurd this.1 this.2

theorem propsHas_names (ps : List (String × JS)) (k : String) (h : propsHas ps k = true) :
    (ps.map (·.1)).contains k = true := by
  simp only [propsHas, List.any_eq_true, beq_iff_eq] at h
  obtain ⟨p, hp, e⟩ := h
  exact List.contains_iff_mem.mpr (List.mem_map.mpr ⟨p, hp, e⟩)

theorem fields_ok {pkg defs S} (fmt : String → String → Bool) (C : Ctx pkg defs S) (n : Nat)
    (ih : ∀ pair s T j, frag defs pair s = true → Builds pkg defs s T → RefsIn pkg S T → wfDeep j = true →
      jsv true fmt defs n s j = true → xden true (n + 2) S T j = true)
    (req : List String) (ms : List (String × Json)) (hwf : wfDeep (.obj ms) = true)
    (hreq : (req.all fun r => (Json.lookup r ms).isSome) = true) :
    ∀ {ps : List (String × JS)} {fs : List Field}, FieldsBuilt pkg defs req ps fs → fragProps defs req ps = true →
      (∀ f ∈ fs, RefsIn pkg S f.ty) →
      (ps.all (fun p => match Json.lookup p.1 ms with
         | some w => jsv true fmt defs n p.2 w && !(true && !req.contains p.1 && jsCollLike p.2 && isEmptyColl w)
         | none => true)) = true →
      xFieldsWith true (xden true (n + 2) S) fs ms = true
  | _, _, .nil, _, _, _ => by simp [xFieldsWith]
  | _, _, .cons (p := p) (f := f) (ps := ps) (fs := fs) hf rest, hfrag, hrefs, hall => by
    obtain ⟨hname, hrq, hb⟩ := hf
    rw [fragProps] at hfrag
    simp only [Bool.and_eq_true, Bool.or_eq_true, Bool.not_eq_true'] at hfrag
    obtain ⟨⟨hfp, hcoll⟩, hfrest⟩ := hfrag
    simp only [List.all_cons, Bool.and_eq_true] at hall
    have tail := fields_ok fmt C n ih req ms hwf hreq rest hfrest (fun g hg => hrefs g (List.mem_cons_of_mem _ hg)) hall.2
    have hr : RefsIn pkg S f.ty := hrefs f (by simp)
    have V := view_of pkg defs true p.2 f.ty hfp hb
    unfold xFieldsWith at tail ⊢
    simp only [List.all_cons, Bool.and_eq_true, Bool.true_or, true_and, if_true]
    refine ⟨?_, by simpa using tail⟩
    rw [hname]
    cases hl : Json.lookup p.1 ms with
    | some w =>
      have h1 := hall.1
      simp only [hl, Bool.and_eq_true, Bool.not_eq_true', Bool.true_and] at h1
      simp only [Bool.and_eq_true]
      refine ⟨ih true p.2 f.ty w hfp hb hr (wfDeep_member hwf hl) h1.1, ?_⟩
      unfold xFieldValueOK
      rw [hrq]
      cases hrc : req.contains p.1 with
      | true => rfl
      | false =>
        simp only [Bool.false_or, Bool.not_eq_true', Bool.and_eq_false_iff]
        cases hic : isCollLike f.ty with
        | false => exact Or.inl rfl
        | true =>
          right
          have hcl := collLike_sound V hic
          have h12 := h1.2
          rw [hrc, hcl] at h12
          simpa using h12
    | none =>
      have hnr : req.contains p.1 = false := by
        cases hrc : req.contains p.1 with
        | false => rfl
        | true =>
          have := (List.all_eq_true.mp hreq) p.1 (List.contains_iff_mem.mp hrc)
          simp [hl] at this
      simp only [Bool.and_eq_true, Bool.not_eq_true']
      refine ⟨by rw [hrq]; exact hnr, ?_⟩
      have hnc : refToColl defs p.2 = false := by
        cases hcoll with
        | inl h => rw [hnr] at h; cases h
        | inr h => exact h
      exact absent_ok C V hr hnc n

/-! ### the induction -/

theorem sound_core {pkg defs S} (fmt : String → String → Bool) (C : Ctx pkg defs S) :
    ∀ n pair s T j, frag defs pair s = true → Builds pkg defs s T → RefsIn pkg S T → wfDeep j = true →
      jsv true fmt defs n s j = true → xden true (n + 2) S T j = true := by
  intro n
  induction n with
  | zero => intro pair s T j _ _ _ _ h; simp [jsv] at h
  | succ n ih =>
    intro pair s T j hf hb hr hwf hv
    have V := view_of pkg defs pair s T hf hb
    cases V with
    | ref name t hra hl ht =>
      have P := jsv_parts hv
      have h1 := P.pRef
      simp only [refPart, hra, hl, Bool.and_eq_true, Bool.not_eq_true', Bool.true_and] at h1
      obtain ⟨o, ho⟩ := refsIn_ref hr
      obtain ⟨hft, hbt⟩ := C.target_builds hl ho
      obtain ⟨_, hrt⟩ := C.target hl ho
      have h2 := ih true t o.ty j hft hbt hrt hwf h1.1
      exact ref_step C hl ht ho m0 (n + 1) j (fun hc => by simpa [hc] using h1.2) h2
    | union bs x y Tx Ty hra hp hwhich hbs hxy fx fy bx by' =>
      have P := jsv_parts hv
      have hany : jsv true fmt defs n x j = true ∨ jsv true fmt defs n y j = true := by
        rcases hwhich with ⟨h1, e⟩ | ⟨h1, h2, e⟩
        · have := P.pOneOf
          rw [← e, hbs] at this
          simp only [h1, Bool.not_true, Bool.false_or] at this
          have := countTrue_one_any this
          simpa using this
        · have := P.pAnyOf
          rw [← e, hbs] at this
          simpa [h2] using this
      cases hx : isNullS x with
      | true =>
        have hy : isNullS y = false := by simpa [hx] using hxy
        have hfy : frag defs false y = true ∧ refToColl defs y = false := by
          cases fy with
          | inl h => rw [hy] at h; cases h
          | inr h => exact h
        have Vy := view_of pkg defs false y Ty hfy.1 by'
        rw [builds_null hx bx] at hr ⊢
        rw [xden_pair_left S (n + 2) Ty _ _ _ (view_notNull Vy)]
        cases hany with
        | inl h => rw [jsv_null hx h]; exact absent_ok1 C Vy (refsIn_disj_right hr) hfy.2 (n + 1)
        | inr h => exact xden_nullable S _ _ _ (ih false y Ty j hfy.1 by' (refsIn_disj_right hr) hwf h)
      | false =>
        have hy : isNullS y = true := by simpa [hx] using hxy
        have hfx : frag defs false x = true ∧ refToColl defs x = false := by
          cases fx with
          | inl h => rw [hx] at h; cases h
          | inr h => exact h
        have Vx := view_of pkg defs false x Tx hfx.1 bx
        rw [builds_null hy by'] at hr ⊢
        rw [xden_pair_right S (n + 2) Tx _ _ _ (view_notNull Vx)]
        cases hany with
        | inr h => rw [jsv_null hy h]; exact absent_ok1 C Vx (refsIn_disj_left hr) hfx.2 (n + 1)
        | inl h => exact xden_nullable S _ _ _ (ih false x Tx j hfx.1 bx (refsIn_disj_left hr) hwf h)
    | enum vs T hra he hok hw =>
      have P := jsv_parts hv
      obtain ⟨v0, rest, e, hT⟩ := walkEnum_shape hw
      have h1 := P.pEnum
      simp only [enumOKJ, he] at h1
      obtain ⟨hd, hh⟩ := enum_sound hok h1 (enumKindOf v0)
        (fun v0' rest' e' => by rw [e] at e'; cases e'; rfl)
      rw [hT]
      rw [e] at hh ⊢
      simp only [List.map_cons] at hh ⊢
      rw [xden_enum_step]
      simp only [m0, Bool.false_and, Bool.false_or, Bool.and_eq_true]
      exact ⟨hd, hh⟩
    | any hra hany =>
      have P := jsv_parts hv
      have h1 := P.pAny
      simp only [hany, Bool.true_and, Bool.not_eq_true', Bool.not_eq_false'] at h1
      rw [xden_any_step]
      simp [h1, hwf]
    | const c T hra he hty hc ho hw =>
      have P := jsv_parts hv
      have h1 := P.pConst
      simp only [constOKJ, hc] at h1
      rcases walkUntypedConstant_shape hc ho hw with ⟨s, e1, e⟩ | ⟨b, e1, e⟩ | ⟨t, f, k, e1, hp, e⟩ | ⟨t, f, e1, hp, hne, e⟩ <;>
        subst e <;> subst e1 <;> rw [xden_scalar_plain S _ _ _ _ _ j (by simp) (by simp) rfl]
      · cases j <;> simp_all [jvMatches, denScalar, constOK, valMatches]
      · cases j <;> simp_all [jvMatches, denScalar, constOK, valMatches]
      · cases j with
        | num q =>
          simp only [jvMatches, hp, beq_iff_eq] at h1
          subst h1
          simp [denScalar_int64_of_mul k (parseInt64_range hp), constOK, valMatches]
        | null | bool _ | str _ | arr _ | obj _ => simp [jvMatches] at h1
      · cases j with
        | num q =>
          simp only [jvMatches, hp, Bool.and_eq_true] at h1
          simp [denScalar_float64, constOK, valMatches, h1.2]
        | null | bool _ | str _ | arr _ | obj _ => simp [jvMatches] at h1
    | bool hra he hty =>
      rename_i a _ _ _ _ _ _ _
      have P := jsv_parts hv
      have h1 := P.pTypes
      rw [hty] at h1
      have h2 := typesOK_single h1
      unfold walkBool
      rw [xden_scalar_plain S _ _ _ _ _ j (by simp) (by simp) rfl]
      cases j with
      | bool b =>
        simp only [denScalar_bool, Bool.true_and, Bool.or_eq_true]
        right
        have h3 := P.pConst
        unfold constOKJ at h3
        unfold constVal
        cases hc : a.const with
        | none => rfl
        | some c => simp only [hc] at h3 ⊢; exact constOK_of (valMatches_toVal_bool h3)
      | null | num _ | str _ | arr _ | obj _ => simp [typeOK] at h2
    | string hra he hty hpat =>
      rename_i a _ _ _ _ _ _ _
      have P := jsv_parts hv
      have h1 := P.pTypes
      rw [hty] at h1
      have h2 := typesOK_single h1
      unfold walkString
      cases j with
      | str s =>
        by_cases hdt : a.format = "date-time"
        · rw [xden_scalar_dt S _ _ _ _ _ (by rw [hasHint_string a false]; simp [hdt])]
          simp
        · rw [xden_scalar_plain S _ _ _ _ _ _ (by simp) (by simp) (by rw [hasHint_string a false]; simp [hdt])]
          simp only [denScalar_string, Bool.true_and, Bool.or_eq_true]
          right
          have h3 := P.pConst
          unfold constOKJ at h3
          simp only [stringValue, hpat, constVal]
          cases hc : a.const with
          | none => rfl
          | some c => simp only [hc] at h3 ⊢; exact constOK_of (valMatches_toVal_str h3)
      | null | num _ | bool _ | arr _ | obj _ => simp [typeOK] at h2
    | number t hra he hty htn =>
      rename_i a _ _ _ _ _ _ _
      have P := jsv_parts hv
      have h1 := P.pTypes
      rw [hty] at h1
      have h2 := typesOK_single h1
      have hst : scalarTypeName t = true := by cases htn with
        | inl e => subst e; rfl
        | inr e => subst e; rfl
      have hd := typeOK_den hst h2
      have hk : jsKind t = numberKind t := by cases htn with
        | inl e => subst e; rfl
        | inr e => subst e; rfl
      rw [hk] at hd
      unfold walkNumber
      have hkk : numberKind t ≠ "bytes" ∧ numberKind t ≠ "any" := by cases htn with
        | inl e => subst e; simp [numberKind]
        | inr e => subst e; simp [numberKind]
      rw [xden_scalar_plain S _ _ _ _ _ j hkk.1 hkk.2 rfl]
      simp only [hd, Bool.true_and, Bool.or_eq_true]
      right
      have h3 := P.pConst
      unfold constOKJ at h3
      unfold numberValue
      cases hc : a.const with
      | none => rfl
      | some c =>
        simp only [hc] at h3 ⊢
        cases j with
        | num q => exact constOK_of (valMatches_unwrap_num h3)
        | null | str _ | bool _ | arr _ | obj _ =>
          cases htn with
          | inl e => subst e; simp [typeOK] at h2
          | inr e => subst e; simp [typeOK] at h2
    | arrayAny hra he hnc hty hi hi2 =>
      have P := jsv_parts hv
      have h1 := P.pTypes
      rw [hty] at h1
      have h2 := typesOK_single h1
      cases j with
      | arr xs =>
        have hbd := P.pBody
        simp only [bodyPart, hi, hi2, List.all_eq_true] at hbd
        rw [xden_array_step]
        have hnb : isByteElem anyTy = false := rfl
        simp only [hnb, Bool.not_false, Bool.true_and, List.all_eq_true]
        intro x hx
        exact ih true emptyJS anyTy x (frag_empty defs) (builds_empty pkg defs) (by intro r hr; simp [anyTy, Ty.refs] at hr)
          (wfDeep_arr_mem hwf hx) (hbd x hx)
      | null | str _ | bool _ | num _ | obj _ => simp [typeOK] at h2
    | arrayOf e Te hra he hnc hty hit hfe hbe =>
      have P := jsv_parts hv
      have h1 := P.pTypes
      rw [hty] at h1
      have h2 := typesOK_single h1
      cases j with
      | arr xs =>
        have hbd := P.pBody
        have hall : ∀ x ∈ xs, jsv true fmt defs n e x = true := by
          rcases hit with ⟨e1, e2⟩ | ⟨e1, e2⟩ <;> subst e1 <;> subst e2 <;>
            simpa [bodyPart, List.all_eq_true] using hbd
        have hnb := view_notByte (view_of _ _ _ _ _ hfe hbe)
        rw [xden_array_step]
        simp only [hnb, Bool.not_false, Bool.true_and, List.all_eq_true]
        intro x hx
        exact ih true e Te x hfe hbe (refsIn_array hr) (wfDeep_arr_mem hwf hx) (hall x hx)
      | null | str _ | bool _ | num _ | obj _ => simp [typeOK] at h2
    | mapOf e Te hra he hnc hty hp ha hfe hbe =>
      have P := jsv_parts hv
      have h1 := P.pTypes
      rw [hty] at h1
      have h2 := typesOK_single h1
      cases j with
      | obj ms =>
        have hbd := P.pBody
        subst hp; subst ha
        simp only [bodyPart, List.all_nil, Bool.true_and, propsHas, List.any_nil, Bool.false_or, List.all_eq_true] at hbd
        rw [xden_map_step]
        simp only [wfDeep_obj hwf, Bool.true_and, List.all_eq_true]
        intro kv hkv
        exact ih true e Te kv.2 hfe hbe (refsIn_map hr) (wfDeep_obj_mem hwf hkv) (hbd kv hkv)
      | null | str _ | bool _ | num _ | arr _ => simp [typeOK] at h2
    | struct fs hra he hty hpne haddl hsk hfp hbuilt =>
      rename_i a _ _ _ props _ _ _
      have P := jsv_parts hv
      have h1 := P.pTypes
      rw [hty] at h1
      have h2 := typesOK_single h1
      cases j with
      | obj ms =>
        have hbd := P.pBody
        subst haddl
        simp only [bodyPart, Bool.and_eq_true] at hbd
        have hreq := P.pRequired
        simp only [requiredOK] at hreq
        have hfields := fields_ok fmt C n ih a.required ms hwf hreq hbuilt hfp (fun f hf => refsIn_field hr hf) hbd.1
        rw [xden_struct_step]
        simp only [m0, Bool.false_and, Bool.false_or, xStructBody, Bool.and_eq_true]
        refine ⟨⟨⟨wfDeep_obj hwf, ?_⟩, ?_⟩, hfields⟩
        · rw [fieldsBuilt_names hbuilt]; exact sortedKeys_namesNodup hsk
        · rw [fieldsBuilt_names hbuilt]
          simp only [List.all_eq_true] at hbd ⊢
          intro kv hkv
          have := hbd.2 kv hkv
          simp only [Bool.or_false] at this
          exact propsHas_names props kv.1 this
      | null | str _ | bool _ | num _ | arr _ => simp [typeOK] at h2
    | typeArr t1 t2 bs hra hp he hty hs hw =>
      have P := jsv_parts hv
      have h1 := P.pTypes
      rw [hty] at h1
      simp only [typesOK, List.isEmpty_cons, Bool.false_or, List.any_cons, List.any_nil, Bool.or_false, Bool.or_eq_true] at h1
      have key : ∀ t, scalarTypeName t = true → (typeOK true "null" j = true ∨ typeOK true t j = true) →
          xden true (n + 2) S (setNullable true (.scalar (jsKind t) .nil [] m0)) j = true ∧
          isNull (.scalar (jsKind t) .nil [] m0) = false := by
        intro t ht hor
        have hkb : jsKind t ≠ "bytes" ∧ jsKind t ≠ "any" ∧ isNull (.scalar (jsKind t) .nil [] m0) = false := by
          rcases jsKind_cases t with h | h | h | h <;> rw [h] <;> exact ⟨by simp, by simp, rfl⟩
        refine ⟨?_, hkb.2.2⟩
        cases hor with
        | inl h =>
          have : j = .null := by cases j <;> simp_all [typeOK, Json.isNull]
          rw [this]; exact null_scalar S (n + 1) _ _ _ _ hkb.1 hkb.2.1
        | inr h =>
          apply xden_nullable
          rw [xden_scalar_plain S _ _ _ _ _ j hkb.1 hkb.2.1 rfl]
          simp [typeOK_den ht h, constOK]
      rcases scalarBranches_pair hs hw with ⟨e1, ht, e⟩ | ⟨e2, ht, e⟩
      · subst e1
        obtain ⟨k1, k2⟩ := key t2 ht h1
        rw [e, xden_pair_left S (n + 2) _ _ _ _ k2]; exact k1
      · subst e2
        obtain ⟨k1, k2⟩ := key t1 ht h1.symm
        rw [e, xden_pair_right S (n + 2) _ _ _ _ k2]; exact k1

/-! ### the theorem about `frontEnd` -/

theorem fragJS_defs {defs : Defs} {root : JS} (h : FragJS defs root = true) : ∀ d ∈ defs, frag defs true d.2 = true := by
  simp only [FragJS, Bool.and_eq_true, List.all_eq_true] at h
  exact h.1

theorem fragJS_root {defs : Defs} {root : String} (h : FragJS defs (refTo root) = true) : frag defs true (refTo root) = true := by
  simp only [FragJS, refTo, Bool.and_eq_true] at h
  rw [refTo, frag]
  simpa using h.2

/-- PARSER SOUNDNESS on the fragment: a document without duplicate member names that is valid (strict reading)
    against the root definition belongs to `srcDen` of the IR the front-end builds, with two more units of fuel. -/
theorem parser_sound (fmt : String → String → Bool) (pkg : String) (defs : Defs) (root : String) (fuel : Nat) (S : Schemas)
    (hF : FragJS defs (refTo root) = true) (hS : frontEnd pkg defs fuel (refTo root) = .ok S)
    (n : Nat) (j : Json) (hwf : wfDeep j = true) (hv : jsValidX fmt defs n (refTo root) j = true) :
    srcDen (n + 2) S (.ref pkg root {}) j = true := by
  obtain ⟨W, hroot⟩ := frontEnd_spec pkg defs fuel root S hS
  have C : Ctx pkg defs S := ⟨W, fragJS_defs hF⟩
  have hb : Builds pkg defs (refTo root) (.ref pkg root m0) := by
    cases hl : lookupDef defs root with
    | none =>
      simp only [FragJS, refTo, Bool.and_eq_true] at hF
      simp [refOK, hl] at hF
    | some t =>
      -- one step of `walkDefinition` from a state in which `root` is already seen
      exact ⟨1, { seen := [root] }, { seen := [root] }, by
        simp [walkDefinition, refTo, walkRef, hl, declare, obind]⟩
  have hr : RefsIn pkg S (.ref pkg root m0) := by
    intro r hr
    simp [Ty.refs] at hr
    subst hr
    exact ⟨rfl, hroot⟩
  exact sound_core fmt C n true (refTo root) _ j (fragJS_root hF) hb hr hwf hv

end Cog.Front.JsonSchema
