/-
  C01 (b) — PARSER SOUNDNESS of the JSON Schema front-end on the fragment `FragJS`:

    a document that is valid (strict reading `jsv true`: outside the three recorded exclusions) against the
    compiled schema belongs to the source-side document language `srcDen` of the IR the front-end builds
    from that schema.

  `sound_core`: induction on the fuel of `jsv`; at each node the one-level `View` of the schema and of the
  type built for it; children through the induction hypothesis; references through `frontEnd_spec`
  (`World`: the object stored under the referred name is the type built for the referred definition).
-/
import Cog.Front.JsonSchemaSoundLemmas
import Cog.Sem.WidenMono
namespace Cog.Front.JsonSchema
open Cog.IR Cog.Sem Cog.Sem.Src Cog.Passes

/-! ### `xden` on the scalars the generator builds -/

theorem xden_scalar_plain (S : Schemas) (n : Nat) (kind : String) (v : Val) (cs : List Constraint) (m : Meta) (j : Json)
    (hb : kind ≠ "bytes") (ha : kind ≠ "any") (hh : hasHint m "string_format_datetime" = false) :
    xden true (n + 1) S (.scalar kind v cs m) j = ((m.nullable && j.isNull) || (denScalar kind j && constOK v j)) := by
  simp [xden, hb, ha, hh]

theorem xden_scalar_dt (S : Schemas) (n : Nat) (v : Val) (cs : List Constraint) (m : Meta) (j : Json)
    (hh : hasHint m "string_format_datetime" = true) :
    xden true (n + 1) S (.scalar "string" v cs m) j = ((m.nullable && j.isNull) || (match j with | .str _ => true | _ => false)) := by
  simp only [xden, hh]
  cases j <;> simp

/-! ### one step of `xden` (so that `simp` does not unfold the fuel further) -/

theorem xden_array_step (S : Schemas) (k : Nat) (e : Ty) (m : Meta) (j : Json) :
    xden true (k + 1) S (.array e m) j =
      (!isByteElem e && match j with
        | .null => m.nullable
        | .arr xs => xs.all (xden true k S e)
        | _ => false) := by simp only [xden]; cases j <;> rfl

theorem xden_map_step (S : Schemas) (k : Nat) (v : Ty) (m : Meta) (j : Json) :
    xden true (k + 1) S (.map stringTy v m) j =
      (match j with
        | .null => m.nullable
        | .obj kvs => keysNodup kvs && kvs.all (fun kv => xden true k S v kv.2)
        | _ => false) := by simp only [xden, stringTy]; cases j <;> rfl

theorem xden_struct_step (S : Schemas) (k : Nat) (fs : List Field) (g : List Ty) (m : Meta) (j : Json) :
    xden true (k + 1) S (.struct fs g none m) j = ((m.nullable && j.isNull) || xStructBody true (xden true k S) fs j) := by
  simp only [xden]

theorem xden_enum_step (S : Schemas) (k : Nat) (v0 : EnumVal) (vs : List EnumVal) (m : Meta) (j : Json) :
    xden true (k + 1) S (.enum (v0 :: vs) m) j = ((m.nullable && j.isNull) || (denScalar v0.kind j && enumHas (v0 :: vs) j)) := by
  simp only [xden]

theorem xden_any_step (S : Schemas) (k : Nat) (j : Json) :
    xden true (k + 1) S anyTy j = (anyExact j && wfDeep j) := by
  simp [anyTy, xden]

theorem hasHint_string (a : JAttrs) (b : Bool) :
    hasHint { nullable := b, dflt := a.dflt.toVal, hints := stringHints a } "string_format_datetime" = decide (a.format = "date-time") := by
  by_cases h : a.format = "date-time" <;> simp [hasHint, stringHints, h]

/-! ### shapes of the built types -/

theorem walkUntypedConstant_shape {a : JAttrs} {addl : JAddl} {c : JV} {T : Ty}
    (hc : a.const = some c) (ho : untypedConstOK a addl = true) (hw : walkUntypedConstant c = .ok T) :
    (∃ s, c = .str s ∧ T = .scalar "string" (.str s) [] m0) ∨
    (∃ b, c = .bool b ∧ T = .scalar "bool" (.bool b) [] m0) ∨
    (∃ t f n, c = .num t f ∧ parseInt64 t = some n ∧ T = .scalar "int64" (.int "i64" n) [] m0) ∨
    (∃ t f, c = .num t f ∧ parseInt64 t = none ∧ f ≠ "" ∧ T = .scalar "float64" (.float "f64" f) [] m0) := by
  simp only [untypedConstOK, hc, Bool.and_eq_true] at ho
  cases c with
  | str s => simp [walkUntypedConstant] at hw; exact Or.inl ⟨s, rfl, hw.symm⟩
  | bool b => simp [walkUntypedConstant] at hw; exact Or.inr (Or.inl ⟨b, rfl, hw.symm⟩)
  | num t f =>
    simp only [walkUntypedConstant] at hw
    cases hp : parseInt64 t with
    | some n => simp [hp] at hw; exact Or.inr (Or.inr (Or.inl ⟨t, f, n, rfl, hp, hw.symm⟩))
    | none =>
      simp only [hp] at hw
      split at hw
      · rename_i hf; simp at hw; exact Or.inr (Or.inr (Or.inr ⟨t, f, rfl, hp, hf, hw.symm⟩))
      · cases hw
  | null => simp at ho
  | arr _ => simp at ho
  | obj _ => simp at ho

theorem walkEnum_shape {vs : List JV} {T : Ty} (hw : walkEnum vs = .ok T) :
    ∃ v0 rest, vs = v0 :: rest ∧
      T = .enum (vs.map fun v => { name := v.fmtV, value := unwrapJSONNumber v,
                                   kind := enumKindOf v0 }) m0 := by
  cases vs with
  | nil => simp [walkEnum] at hw
  | cons v0 rest => simp [walkEnum] at hw; exact ⟨v0, rest, rfl, hw.symm⟩

/-- IR scalar kind of a JSON Schema type name (`walkScalarDisjunction`) -/
def jsKind (t : String) : String :=
  if t = "boolean" then "bool" else if t = "string" then "string" else if t = "number" then "float64" else "int64"

theorem jsKind_cases (t : String) : jsKind t = "bool" ∨ jsKind t = "string" ∨ jsKind t = "float64" ∨ jsKind t = "int64" := by
  unfold jsKind; split
  · simp
  · split
    · simp
    · split <;> simp

theorem scalarBranches_one (t : String) (ht : scalarTypeName t = true) :
    scalarBranches [t] = .ok [.scalar (jsKind t) .nil [] m0] := by
  simp only [scalarTypeName, Bool.or_eq_true, decide_eq_true_eq] at ht
  rcases ht with ((h | h) | h) | h <;> subst h <;> simp [scalarBranches, obind, jsKind]

theorem scalarBranches_pair {t1 t2 : String} {bs : List Ty}
    (hs : (t1 = "null" ∧ scalarTypeName t2 = true) ∨ (t2 = "null" ∧ scalarTypeName t1 = true))
    (hw : scalarBranches [t1, t2] = .ok bs) :
    (t1 = "null" ∧ scalarTypeName t2 = true ∧ bs = [nullTy, .scalar (jsKind t2) .nil [] m0]) ∨
    (t2 = "null" ∧ scalarTypeName t1 = true ∧ bs = [.scalar (jsKind t1) .nil [] m0, nullTy]) := by
  cases hs with
  | inl h =>
    obtain ⟨e, ht⟩ := h; subst e
    have : scalarBranches ["null", t2] = .ok [nullTy, .scalar (jsKind t2) .nil [] m0] := by
      rw [scalarBranches]; simp [scalarBranches_one t2 ht, obind, nullTy]
    rw [this] at hw; cases hw
    exact Or.inl ⟨rfl, ht, rfl⟩
  | inr h =>
    obtain ⟨e, ht⟩ := h; subst e
    have h2 : scalarBranches ["null"] = .ok [nullTy] := by simp [scalarBranches, obind, nullTy]
    have ht' := ht
    simp only [scalarTypeName, Bool.or_eq_true, decide_eq_true_eq] at ht'
    have : scalarBranches [t1, "null"] = .ok [.scalar (jsKind t1) .nil [] m0, nullTy] := by
      rcases ht' with ((h | h) | h) | h <;> subst h <;> (rw [scalarBranches]; simp [h2, obind, jsKind])
    rw [this] at hw; cases hw
    exact Or.inr ⟨rfl, ht, rfl⟩

theorem view_notByte {pkg defs pair s T} (V : View pkg defs pair s T) : isByteElem T = false := by
  cases V with
  | ref => rfl
  | union => rfl
  | enum vs T _ _ _ hw => obtain ⟨v0, rest, _, e⟩ := walkEnum_shape hw; subst e; rfl
  | any => rfl
  | const c T _ _ _ hc ho hw =>
    rcases walkUntypedConstant_shape hc ho hw with ⟨_, _, e⟩ | ⟨_, _, e⟩ | ⟨_, _, _, _, _, e⟩ | ⟨_, _, _, _, _, e⟩ <;> subst e <;> rfl
  | bool => rfl
  | string => rfl
  | number t _ _ _ ht => cases ht with
    | inl e => subst e; rfl
    | inr e => subst e; rfl
  | arrayAny => rfl
  | arrayOf => rfl
  | mapOf => rfl
  | struct => rfl
  | typeArr => rfl

theorem view_notNull {pkg defs s T} (V : View pkg defs false s T) : isNull T = false := by
  cases V with
  | ref => rfl
  | union _ _ _ _ _ _ hp => cases hp
  | enum vs T _ _ _ hw => obtain ⟨v0, rest, _, e⟩ := walkEnum_shape hw; subst e; rfl
  | any => rfl
  | const c T _ _ _ hc ho hw =>
    rcases walkUntypedConstant_shape hc ho hw with ⟨_, _, e⟩ | ⟨_, _, e⟩ | ⟨_, _, _, _, _, e⟩ | ⟨_, _, _, _, _, e⟩ <;> subst e <;> rfl
  | bool => rfl
  | string => rfl
  | number t _ _ _ ht => cases ht with
    | inl e => subst e; rfl
    | inr e => subst e; rfl
  | arrayAny => rfl
  | arrayOf => rfl
  | mapOf => rfl
  | struct => rfl
  | typeArr _ _ _ _ hp => cases hp

/-- `{type: null}` is read as the null scalar -/
theorem builds_null {pkg defs x Tx} (hn : isNullS x = true) (hb : Builds pkg defs x Tx) : Tx = nullTy := by
  obtain ⟨k, st, st', hw⟩ := hb
  cases k with
  | zero => simp [walkDefinition] at hw
  | succ k =>
    cases x with
    | mk a oneOf anyOf allOf props addl items items2020 =>
      simp only [isNullS, noCombinator, Bool.and_eq_true, Bool.not_eq_true', Option.isNone_iff_eq_none, beq_iff_eq] at hn
      obtain ⟨⟨_, ⟨⟨⟨⟨h1, h2⟩, h3⟩, h4⟩, h5⟩⟩, h6⟩ := hn
      unfold walkDefinition at hw
      simp [h1, h2, h3, h4, h5, h6] at hw
      exact hw.1.symm

/-! ### the world: references resolve to the views of their targets -/

structure Ctx (pkg : String) (defs : Defs) (S : Schemas) : Prop where
  world : World pkg defs S
  fragDefs : ∀ d ∈ defs, frag defs true d.2 = true

theorem Ctx.target {pkg defs S} (C : Ctx pkg defs S) {name : String} {t : JS} {o : Obj}
    (hl : lookupDef defs name = some t) (ho : Schemas.locateObject S pkg name = some o) :
    View pkg defs true t o.ty ∧ RefsIn pkg S o.ty := by
  obtain ⟨js, h1, h2⟩ := C.world.obj name o ho
  rw [hl] at h1; cases h1
  exact ⟨view_of pkg defs true t o.ty (C.fragDefs _ (lookupDef_mem hl)) h2, C.world.closed name o ho⟩

theorem Ctx.target_builds {pkg defs S} (C : Ctx pkg defs S) {name : String} {t : JS} {o : Obj}
    (hl : lookupDef defs name = some t) (ho : Schemas.locateObject S pkg name = some o) :
    frag defs true t = true ∧ Builds pkg defs t o.ty := by
  obtain ⟨js, h1, h2⟩ := C.world.obj name o ho
  rw [hl] at h1; cases h1
  exact ⟨C.fragDefs _ (lookupDef_mem hl), h2⟩

theorem refsIn_ref {pkg S name m} (h : RefsIn pkg S (.ref pkg name m)) :
    ∃ o, Schemas.locateObject S pkg name = some o := by
  have := (h (pkg, name) (by simp [Ty.refs])).2
  cases ho : Schemas.locateObject S pkg name with
  | none => simp [ho] at this
  | some o => exact ⟨o, rfl⟩

/-- a view of a definition that a reference may point to is one of five shapes -/
theorem target_cases {pkg defs t T} (ht : targetOK t = true) (V : View pkg defs true t T) :
    (∃ fs, T = .struct fs [] none m0 ∧ jsIsColl t = false) ∨
    (∃ e0 es, T = .enum (e0 :: es) m0 ∧ jsIsColl t = false) ∨
    (∃ kind cs om, T = .scalar kind .nil cs om ∧ kind ≠ "bytes" ∧ kind ≠ "any" ∧
        hasHint om "string_format_datetime" = false ∧ om.nullable = false ∧ jsIsColl t = false) ∨
    ((∃ e m, T = .array e m ∧ m.nullable = false ∧ isByteElem e = false) ∧ jsIsColl t = true) ∨
    ((∃ v m, T = .map stringTy v m ∧ m.nullable = false) ∧ jsIsColl t = true) := by
  obtain ⟨a, oneOf, anyOf, allOf, props, addl, items, items2020⟩ := t
  have hto := ht
  simp only [targetOK, Bool.and_eq_true, Bool.not_eq_true', Bool.or_eq_true, Option.isNone_iff_eq_none] at hto
  obtain ⟨⟨⟨⟨hr0, ho1⟩, ho2⟩, ho3⟩, hkind⟩ := hto
  cases V with
  | ref name t' hr => rw [hr0] at hr; cases hr
  | union bs x y Tx Ty hr hp hwhich =>
    rcases hwhich with ⟨h, _⟩ | ⟨_, h, _⟩
    · rw [ho1] at h; cases h
    · rw [ho2] at h; cases h
  | enum vs T hr he hv hw =>
    obtain ⟨v0, rest, e, hT⟩ := walkEnum_shape hw
    subst e
    refine Or.inr (Or.inl ⟨_, _, by rw [hT]; rfl, ?_⟩)
    simp [jsIsColl, noCombinator, he]
  | any hr hany =>
    exfalso
    simp only [jsIsAny, noCombinator, Bool.and_eq_true, Bool.or_eq_true, Bool.not_eq_true', Option.isNone_iff_eq_none] at hany
    have he : a.enum = none := hany.1.2
    cases hkind with
    | inl h => simp [he] at h
    | inr h =>
      cases hty : a.types with
      | nil => simp [hty] at h
      | cons t1 ts =>
        cases ts with
        | cons _ _ => simp [hty] at h
        | nil =>
          simp only [hty, Bool.or_eq_true, Bool.and_eq_true, decide_eq_true_eq, Bool.not_eq_true'] at h
          cases hany.2 with
          | inl h' => simp [hty] at h'
          | inr h' =>
            have hpe : props.isEmpty = true := h'.1.2
            have hns : addlIsSchema addl = false := h'.2
            have hop : objectPath a addl = true := h'.1.1
            have hobj : t1 = "object" := by
              simpa [objectPath, hty] using hop
            subst hobj
            rcases h with (h | h) | h
            · simp [scalarTypeName] at h
            · simp at h
            · rw [hpe, hns] at h; simp at h
  | const c T hr he hty => simp [he, hty] at hkind
  | bool hr he hty =>
    simp only [hty, he, Option.isSome_none, Bool.false_eq_true, false_or, Bool.or_eq_true, Bool.and_eq_true,
      decide_eq_true_eq, Bool.not_eq_true', Option.isNone_iff_eq_none] at hkind
    have hc : a.const = none := by
      rcases hkind with (h | h) | h
      · exact h.1.1.2
      · simp at h
      · simp at h
    refine Or.inr (Or.inr (Or.inl ⟨"bool", [], { dflt := a.dflt.toVal }, by simp [walkBool, constVal, hc], by simp, by simp, rfl, rfl, ?_⟩))
    simp [jsIsColl, hty, objectPath]
  | string hr he hty hpat =>
    simp only [hty, he, Option.isSome_none, Bool.false_eq_true, false_or, Bool.or_eq_true, Bool.and_eq_true,
      decide_eq_true_eq, Bool.not_eq_true', Option.isNone_iff_eq_none] at hkind
    have hc : a.const = none ∧ a.format ≠ "date-time" := by
      rcases hkind with (h | h) | h
      · exact ⟨h.1.1.2, by simpa using h.1.2⟩
      · simp at h
      · simp at h
    refine Or.inr (Or.inr (Or.inl ⟨"string", stringConstraints a, { dflt := a.dflt.toVal, hints := stringHints a },
      by simp [walkString, stringValue, hpat, constVal, hc.1], by simp, by simp, ?_, rfl, ?_⟩))
    · rw [hasHint_string a false]; simp [hc.2]
    · simp [jsIsColl, hty, objectPath]
  | number t hr he hty htn =>
    simp only [hty, he, Option.isSome_none, Bool.false_eq_true, false_or, Bool.or_eq_true, Bool.and_eq_true,
      decide_eq_true_eq, Bool.not_eq_true', Option.isNone_iff_eq_none] at hkind
    have hc : a.const = none := by
      rcases hkind with (h | h) | h
      · exact h.1.1.2
      · subst h; simp at htn
      · obtain ⟨h, _⟩ := h; subst h; simp at htn
    have hcoll : jsIsColl (JS.mk a oneOf anyOf allOf props addl items items2020) = false := by
      cases htn with
      | inl e => subst e; simp [jsIsColl, hty, objectPath]
      | inr e => subst e; simp [jsIsColl, hty, objectPath]
    refine Or.inr (Or.inr (Or.inl ⟨numberKind t, numberConstraints a, { dflt := unwrapJSONNumber a.dflt },
      by simp [walkNumber, numberValue, hc], ?_, ?_, rfl, rfl, hcoll⟩))
    · unfold numberKind; split <;> simp
    · unfold numberKind; split <;> simp
  | arrayAny hr he hnc hty =>
    exact Or.inr (Or.inr (Or.inr (Or.inl ⟨⟨_, _, rfl, rfl, rfl⟩, by simp [jsIsColl, hnc, hty]⟩)))
  | arrayOf e Te hr he hnc hty hit hfe hbe =>
    exact Or.inr (Or.inr (Or.inr (Or.inl ⟨⟨_, _, rfl, rfl, view_notByte (view_of _ _ _ _ _ hfe hbe)⟩, by simp [jsIsColl, hnc, hty]⟩)))
  | mapOf e Te hr he hnc hty hp ha =>
    exact Or.inr (Or.inr (Or.inr (Or.inr ⟨⟨_, _, rfl, rfl⟩, by simp [jsIsColl, hnc, hty, hp, ha, objectPath, addlIsSchema]⟩)))
  | struct fs hr he hty hp ha =>
    refine Or.inl ⟨fs, rfl, ?_⟩
    have : props.isEmpty = false := by cases props <;> simp_all
    simp [jsIsColl, hty, objectPath, this]
  | typeArr t1 t2 bs hr hp he hty => simp [he, hty] at hkind

/-! ### references -/

/-- a document of the type built for the referred definition is a document of the reference -/
theorem ref_step {pkg defs S} (C : Ctx pkg defs S) {name : String} {t : JS} {o : Obj}
    (hl : lookupDef defs name = some t) (ht : targetOK t = true)
    (ho : Schemas.locateObject S pkg name = some o) (m : Meta) (k : Nat) (j : Json)
    (hcoll : jsIsColl t = true → isEmptyColl j = false)
    (h : xden true (k + 1) S o.ty j = true) : xden true (k + 2) S (.ref pkg name m) j = true := by
  obtain ⟨V, _⟩ := C.target hl ho
  rcases target_cases ht V with ⟨fs, hT, _⟩ | ⟨e0, es, hT, _⟩ | ⟨kind, cs, om, hT, hb, ha, hh, hn, _⟩ |
    ⟨⟨e, am, hT, hn, hbe⟩, hc⟩ | ⟨⟨v, mm, hT, hn⟩, hc⟩
  · rw [hT] at h
    simp only [xden, m0, Bool.false_and, Bool.false_or] at h
    simp only [xden, ho, hT, Bool.or_eq_true]
    exact Or.inr (xStructBody_mono true _ _ (fun t j => xden_mono true S k t j) fs j h)
  · rw [hT] at h
    simp only [xden, m0, Bool.false_and, Bool.false_or] at h
    simp only [xden, ho, hT, Bool.or_eq_true]
    exact Or.inr h
  · rw [hT] at h
    rw [xden_scalar_plain S k kind .nil cs om j hb ha hh] at h
    simp only [hn, Bool.false_and, Bool.false_or, Bool.and_eq_true] at h
    simp only [xden, ho, hT, Bool.and_eq_true, Bool.or_eq_true, bne_iff_ne, ne_eq, Bool.not_eq_true']
    exact ⟨⟨⟨⟨trivial, hb⟩, ha⟩, hh⟩, Or.inr h.1⟩
  · rw [hT] at h
    simp only [xden, Bool.and_eq_true, Bool.not_eq_true'] at h
    simp only [xden, ho, hT, Bool.and_eq_true, Bool.not_eq_true']
    exact ⟨hcoll hc, h⟩
  · rw [hT] at h
    simp only [xden, stringTy, Bool.and_eq_true, Bool.not_eq_true'] at h
    simp only [xden, stringTy, ho, hT, Bool.and_eq_true, Bool.not_eq_true']
    exact ⟨hcoll hc, h⟩

/-- `null` belongs to a nullable reference to a definition that is not read as a collection -/
theorem ref_null {pkg defs S} (C : Ctx pkg defs S) {name : String} {t : JS} {o : Obj}
    (hl : lookupDef defs name = some t) (ht : targetOK t = true)
    (ho : Schemas.locateObject S pkg name = some o) (hnc : jsIsColl t = false) (k : Nat) :
    xden true (k + 1) S (.ref pkg name { nullable := true }) .null = true := by
  obtain ⟨V, _⟩ := C.target hl ho
  rcases target_cases ht V with ⟨fs, hT, _⟩ | ⟨e0, es, hT, _⟩ | ⟨kind, cs, om, hT, hb, ha, hh, hn, _⟩ |
    ⟨_, hc⟩ | ⟨_, hc⟩
  · simp [xden, ho, hT, Json.isNull]
  · simp [xden, ho, hT, Json.isNull]
  · simp [xden, ho, hT, Json.isNull, hb, ha, hh]
  · rw [hnc] at hc; cases hc
  · rw [hnc] at hc; cases hc

/-! ### `null` for an absent optional member / the null branch of a pair -/

theorem null_scalar (S : Schemas) (k : Nat) (kind : String) (v : Val) (cs : List Constraint) (m : Meta)
    (hb : kind ≠ "bytes") (ha : kind ≠ "any") :
    xden true (k + 1) S (setNullable true (.scalar kind v cs m)) .null = true := by
  rw [setNullable_scalar]
  cases hh : hasHint m "string_format_datetime" with
  | false =>
    rw [xden_scalar_plain S k kind v cs _ .null hb ha (by simpa [hasHint] using hh)]
    simp [Json.isNull]
  | true =>
    simp [xden, hb, ha, Json.isNull]

/-- views below a pair (`pair = false`) -/
theorem absent_ok1 {pkg defs S} (C : Ctx pkg defs S) {s : JS} {T : Ty} (V : View pkg defs false s T)
    (hr : RefsIn pkg S T) (hnc : refToColl defs s = false) (k : Nat) :
    xden true (k + 1) S (setNullable true T) .null = true := by
  cases V with
  | ref name t hra hl ht =>
    obtain ⟨o, ho⟩ := refsIn_ref hr
    rw [setNullable_ref]
    have : jsIsColl t = false := by simpa [refToColl, JS.attrs, hra, hl] using hnc
    exact ref_null C hl ht ho this k
  | union _ _ _ _ _ _ hp => cases hp
  | enum vs T _ _ _ hw =>
    obtain ⟨v0, rest, e, hT⟩ := walkEnum_shape hw
    subst e; subst hT
    simp [setNullable, Ty.setMeta, Ty.getMeta, xden, Json.isNull]
  | any => simp [setNullable, Ty.setMeta, Ty.getMeta, anyTy, xden, anyExact, wfDeep]
  | const c T _ _ _ hc ho hw =>
    rcases walkUntypedConstant_shape hc ho hw with ⟨_, _, e⟩ | ⟨_, _, e⟩ | ⟨_, _, _, _, _, e⟩ | ⟨_, _, _, _, _, e⟩ <;>
      subst e <;> exact null_scalar S k _ _ _ _ (by simp) (by simp)
  | bool => exact null_scalar S k _ _ _ _ (by simp) (by simp)
  | string => exact null_scalar S k _ _ _ _ (by simp) (by simp)
  | number t _ _ _ ht =>
    cases ht with
    | inl e => subst e; exact null_scalar S k _ _ _ _ (by simp [numberKind]) (by simp [numberKind])
    | inr e => subst e; exact null_scalar S k _ _ _ _ (by simp [numberKind]) (by simp [numberKind])
  | arrayAny => simp [setNullable, Ty.setMeta, Ty.getMeta, xden, isByteElem, anyTy]
  | arrayOf e Te _ _ _ _ _ hfe hbe =>
    have := view_notByte (view_of _ _ _ _ _ hfe hbe)
    simp [setNullable, Ty.setMeta, Ty.getMeta, xden, this]
  | mapOf => simp [setNullable, Ty.setMeta, Ty.getMeta, xden, stringTy]
  | struct => simp [setNullable, Ty.setMeta, Ty.getMeta, xden, Json.isNull]
  | typeArr _ _ _ _ hp => cases hp

theorem xden_pair_left (S : Schemas) (k : Nat) (U : Ty) (i : DisjInfo) (m : Meta) (j : Json) (hn : isNull U = false) :
    xden true (k + 1) S (.disj [nullTy, U] i m) j = xden true k S (setNullable true U) j := by
  have h0 : isNull nullTy = true := rfl
  simp [xden, hasNullType, nonNullTypes, h0, hn]

theorem xden_pair_right (S : Schemas) (k : Nat) (U : Ty) (i : DisjInfo) (m : Meta) (j : Json) (hn : isNull U = false) :
    xden true (k + 1) S (.disj [U, nullTy] i m) j = xden true k S (setNullable true U) j := by
  have h0 : isNull nullTy = true := rfl
  simp [xden, hasNullType, nonNullTypes, h0, hn]

theorem refsIn_disj_left {pkg S a b i m} (h : RefsIn pkg S (.disj [a, b] i m)) : RefsIn pkg S a :=
  fun r hr => h r (by simp [Ty.refs, Ty.refsList, hr])
theorem refsIn_disj_right {pkg S a b i m} (h : RefsIn pkg S (.disj [a, b] i m)) : RefsIn pkg S b :=
  fun r hr => h r (by simp [Ty.refs, Ty.refsList, hr])
theorem refsIn_array {pkg S e m} (h : RefsIn pkg S (.array e m)) : RefsIn pkg S e :=
  fun r hr => h r (by simp [Ty.refs, hr])
theorem refsIn_map {pkg S i v m} (h : RefsIn pkg S (.map i v m)) : RefsIn pkg S v :=
  fun r hr => h r (by simp [Ty.refs, hr])
theorem refsIn_field {pkg S fs g gi m} (h : RefsIn pkg S (.struct fs g gi m)) {f : Field} (hf : f ∈ fs) : RefsIn pkg S f.ty :=
  fun r hr => h r (by simp only [Ty.refs, List.mem_append]; exact Or.inl (mem_refsFields.mpr ⟨f, hf, hr⟩))

/-- `null` for an absent optional member of any type of the fragment that is not a reference to a collection definition -/
theorem absent_ok {pkg defs S} (C : Ctx pkg defs S) {pair : Bool} {s : JS} {T : Ty} (V : View pkg defs pair s T)
    (hr : RefsIn pkg S T) (hnc : refToColl defs s = false) (k : Nat) :
    xden true (k + 2) S (setNullable true T) .null = true := by
  have up : ∀ {U : Ty}, xden true (k + 1) S U .null = true → xden true (k + 2) S U .null = true :=
    fun h => xden_mono true S _ _ _ h
  cases V with
  | ref name t h1 h2 h3 => exact up (absent_ok1 C (View.ref name t h1 h2 h3) hr hnc k)
  | union bs x y Tx Ty hra hp hwhich hbs hxy fx fy bx by' =>
    rw [setNullable_disj]
    cases hx : isNullS x with
    | true =>
      have hy : isNullS y = false := by simpa [hx] using hxy
      have hfy : frag defs false y = true ∧ refToColl defs y = false := by
        cases fy with
        | inl h => rw [hy] at h; cases h
        | inr h => exact h
      have Vy := view_of pkg defs false y Ty hfy.1 by'
      rw [builds_null hx bx, xden_pair_left S (k + 1) Ty _ _ _ (view_notNull Vy)]
      exact absent_ok1 C Vy (refsIn_disj_right hr) hfy.2 k
    | false =>
      have hy : isNullS y = true := by simpa [hx] using hxy
      have hfx : frag defs false x = true ∧ refToColl defs x = false := by
        cases fx with
        | inl h => rw [hx] at h; cases h
        | inr h => exact h
      have Vx := view_of pkg defs false x Tx hfx.1 bx
      rw [builds_null hy by', xden_pair_right S (k + 1) Tx _ _ _ (view_notNull Vx)]
      exact absent_ok1 C Vx (refsIn_disj_left hr) hfx.2 k
  | enum vs T h1 h2 h3 h4 => exact up (absent_ok1 C (View.enum vs T h1 h2 h3 h4) hr hnc k)
  | any h1 h2 => exact up (absent_ok1 C (View.any h1 h2) hr hnc k)
  | const c T h1 h2 h3 h4 h5 h6 => exact up (absent_ok1 C (View.const c T h1 h2 h3 h4 h5 h6) hr hnc k)
  | bool h1 h2 h3 => exact up (absent_ok1 C (View.bool h1 h2 h3) hr hnc k)
  | string h1 h2 h3 h4 => exact up (absent_ok1 C (View.string h1 h2 h3 h4) hr hnc k)
  | number t h1 h2 h3 h4 => exact up (absent_ok1 C (View.number t h1 h2 h3 h4) hr hnc k)
  | arrayAny h1 h2 h3 h4 h5 h6 => exact up (absent_ok1 C (View.arrayAny h1 h2 h3 h4 h5 h6) hr hnc k)
  | arrayOf e Te h1 h2 h3 h4 h5 h6 h7 => exact up (absent_ok1 C (View.arrayOf e Te h1 h2 h3 h4 h5 h6 h7) hr hnc k)
  | mapOf e Te h1 h2 h3 h4 h5 h6 h7 h8 => exact up (absent_ok1 C (View.mapOf e Te h1 h2 h3 h4 h5 h6 h7 h8) hr hnc k)
  | struct fs h1 h2 h3 h4 h5 h6 h7 h8 => exact up (absent_ok1 C (View.struct fs h1 h2 h3 h4 h5 h6 h7 h8) hr hnc k)
  | typeArr t1 t2 bs hra hp he hty hs hw =>
    rw [setNullable_disj]
    have key : ∀ t, xden true (k + 1) S (setNullable true (.scalar (jsKind t) .nil [] m0)) .null = true ∧
        isNull (.scalar (jsKind t) .nil [] m0) = false := by
      intro t
      rcases jsKind_cases t with h | h | h | h <;> rw [h] <;> exact ⟨null_scalar S k _ _ _ _ (by simp) (by simp), rfl⟩
    rcases scalarBranches_pair hs hw with ⟨_, _, e⟩ | ⟨_, _, e⟩
    · rw [e, xden_pair_left S (k + 1) _ _ _ _ (key t2).2]; exact (key t2).1
    · rw [e, xden_pair_right S (k + 1) _ _ _ _ (key t1).2]; exact (key t1).1

/-! ### collections: the syntactic test over-approximates `isCollLike` of the built type -/

theorem view_coll {pkg defs pair s T} (V : View pkg defs pair s T) (h : (T.isArray || T.isMap) = true) : jsIsColl s = true := by
  cases V with
  | ref => simp [Ty.isArray, Ty.isMap] at h
  | union => simp [Ty.isArray, Ty.isMap] at h
  | enum vs T _ _ _ hw => obtain ⟨v0, rest, _, e⟩ := walkEnum_shape hw; subst e; simp [Ty.isArray, Ty.isMap] at h
  | any => simp [Ty.isArray, Ty.isMap, anyTy] at h
  | const c T _ _ _ hc ho hw =>
    rcases walkUntypedConstant_shape hc ho hw with ⟨_, _, e⟩ | ⟨_, _, e⟩ | ⟨_, _, _, _, _, e⟩ | ⟨_, _, _, _, _, e⟩ <;>
      subst e <;> simp [Ty.isArray, Ty.isMap] at h
  | bool => simp [Ty.isArray, Ty.isMap, walkBool] at h
  | string => simp [Ty.isArray, Ty.isMap, walkString] at h
  | number => simp [Ty.isArray, Ty.isMap, walkNumber] at h
  | arrayAny hr he hnc hty => simp [jsIsColl, hnc, hty]
  | arrayOf e Te hr he hnc hty => simp [jsIsColl, hnc, hty]
  | mapOf e Te hr he hnc hty hp ha => simp [jsIsColl, hnc, hty, hp, ha, objectPath, addlIsSchema]
  | struct => simp [Ty.isArray, Ty.isMap] at h
  | typeArr => simp [Ty.isArray, Ty.isMap] at h

theorem collLike_sound {pkg defs pair s T} (V : View pkg defs pair s T) (h : isCollLike T = true) : jsCollLike s = true := by
  cases V with
  | ref => simp [isCollLike] at h
  | union bs x y Tx Ty hra hp hwhich hbs hxy fx fy bx by' =>
    rename_i a oneOf anyOf allOf props addl items items2020
    simp only [isCollLike, List.length_cons, List.length_nil, Bool.and_eq_true] at h
    have key : (jsIsColl x || jsIsColl y) = true := by
      cases hx : isNullS x with
      | true =>
        have hy : isNullS y = false := by simpa [hx] using hxy
        have hfy : frag defs false y = true := by
          cases fy with
          | inl h => rw [hy] at h; cases h
          | inr h => exact h.1
        have Vy := view_of pkg defs false y Ty hfy by'
        have h2 := h.2
        rw [builds_null hx bx] at h2
        have h0 : isNull nullTy = true := rfl
        simp only [nonNullTypes, h0, if_true, view_notNull Vy, Bool.false_eq_true, if_false] at h2
        simp [view_coll Vy h2]
      | false =>
        have hy : isNullS y = true := by simpa [hx] using hxy
        have hfx : frag defs false x = true := by
          cases fx with
          | inl h => rw [hx] at h; cases h
          | inr h => exact h.1
        have Vx := view_of pkg defs false x Tx hfx bx
        have h2 := h.2
        simp only [nonNullTypes, view_notNull Vx, Bool.false_eq_true, if_false] at h2
        simp [view_coll Vx h2]
    simp only [jsCollLike, Bool.or_eq_true, Bool.and_eq_true]
    refine Or.inr ⟨by simp [hra], ?_⟩
    rcases hwhich with ⟨h1, e⟩ | ⟨h1, h2, e⟩
    · subst e; rw [hbs]; left; simpa [h1] using key
    · subst e; rw [hbs]; right; simpa [h1, h2] using key
  | enum vs T _ _ _ hw => obtain ⟨v0, rest, _, e⟩ := walkEnum_shape hw; subst e; simp [isCollLike] at h
  | any => simp [isCollLike, anyTy] at h
  | const c T _ _ _ hc ho hw =>
    rcases walkUntypedConstant_shape hc ho hw with ⟨_, _, e⟩ | ⟨_, _, e⟩ | ⟨_, _, _, _, _, e⟩ | ⟨_, _, _, _, _, e⟩ <;>
      subst e <;> simp [isCollLike] at h
  | bool => simp [isCollLike, walkBool] at h
  | string => simp [isCollLike, walkString] at h
  | number => simp [isCollLike, walkNumber] at h
  | arrayAny hr he hnc hty => simp [jsCollLike, jsIsColl, hnc, hty]
  | arrayOf e Te hr he hnc hty => simp [jsCollLike, jsIsColl, hnc, hty]
  | mapOf e Te hr he hnc hty hp ha => simp [jsCollLike, jsIsColl, hnc, hty, hp, ha, objectPath, addlIsSchema]
  | struct => simp [isCollLike] at h
  | typeArr t1 t2 bs hra hp he hty hs hw =>
    have hnn : ∀ t, isNull (.scalar (jsKind t) .nil [] m0) = false := by
      intro t
      rcases jsKind_cases t with h | h | h | h <;> rw [h] <;> rfl
    have h0 : isNull nullTy = true := rfl
    rcases scalarBranches_pair hs hw with ⟨_, _, e⟩ | ⟨_, _, e⟩
    · subst e; simp [isCollLike, nonNullTypes, h0, hnn, Ty.isArray, Ty.isMap] at h
    · subst e; simp [isCollLike, nonNullTypes, h0, hnn, Ty.isArray, Ty.isMap] at h

end Cog.Front.JsonSchema
