/-
  Glue between "the front-end keeps a scalar property" (Cog/Front/{JsonSchema,OpenApi}Keeps.lean) and C10's theorems about
  the constructors generated from the post-chain IR (Props/C10.lean): the image of a scalar-typed field under the Go and
  Python chains, and the facts `goFits` / `pyFits` / `declaredOf` / `namesNodup` read from it.  Independent of the input
  format.
-/
import Cog.Front.JsonSchemaKeeps
import Cog.Sem.DefaultsPyHolds
namespace Cog.Front.Keeps
open Cog.IR Cog.Sem Cog.Sem.Src Cog.Passes Cog.Sem.Defaults
open NotRequiredFieldAsNullableType (vTy vFields fixField)
open Cog.Front.JsonSchema (imgField)

/-- the field a scalar property becomes after NotRequiredFieldAsNullableType, from its name, type and requiredness -/
def scalarImg (name : String) (ty : Ty) (required : Bool) : Field :=
  imgField { name := name, ty := ty, required := required }

theorem imgField_parts (f : Field) : (imgField f).name = f.name ∧ (imgField f).required = f.required ∧
    (imgField f).ty = (scalarImg f.name f.ty f.required).ty := by
  unfold scalarImg imgField fixField
  refine ⟨by split <;> rfl, by split <;> rfl, ?_⟩
  simp only
  split <;> rfl

theorem imgField_scalar {f : Field} (h : f.ty.isScalar = true) : (imgField f).ty.isScalar = true := by
  unfold imgField fixField
  split
  · cases hf : f.ty <;> simp_all [Ty.isScalar, setNullable, Ty.setMeta]
  · exact h

/-- `goFits` of a scalar-typed field reads its type and requiredness only -/
theorem goFits_scalar_congr (ss ss' : Schemas) (f g : Field) (ht : f.ty = g.ty) (hr : f.required = g.required)
    (hs : f.ty.isScalar = true) : goFits ss f = goFits ss' g := by
  obtain ⟨fn, fty, fr, fc⟩ := f
  obtain ⟨gn, gty, gr, gc⟩ := g
  simp only at ht hr hs
  subst ht; subst hr
  cases fty <;> simp [Ty.isScalar] at hs
  rfl

theorem pyFits_scalar_congr (ss ss' : Schemas) (f g : Field) (ht : f.ty = g.ty)
    (hs : f.ty.isScalar = true) : pyFits ss f = pyFits ss' g := by
  obtain ⟨fn, fty, fr, fc⟩ := f
  obtain ⟨gn, gty, gr, gc⟩ := g
  simp only at ht hs
  subst ht
  cases fty <;> simp [Ty.isScalar] at hs
  rfl

theorem declaredOf_congr (f g : Field) (ht : f.ty = g.ty) : declaredOf f = declaredOf g := by
  unfold declaredOf; rw [ht]

/-- C10's `namesNodup` (no field name occurs twice) from the duplicate-freeness of the name list -/
theorem defaults_namesNodup : ∀ (fs : List Field), Cog.Sem.namesNodup (fs.map (·.name)) = true → Defaults.namesNodup fs = true
  | [], _ => rfl
  | f :: fs, h => by
    simp only [List.map_cons, Cog.Sem.namesNodup, Bool.and_eq_true, Bool.not_eq_true'] at h
    simp only [Defaults.namesNodup, Bool.and_eq_true]
    refine ⟨?_, defaults_namesNodup fs h.2⟩
    have : ∀ (gs : List Field), (gs.map (·.name)).contains f.name = false → (fieldByName f.name gs).isNone = true := by
      intro gs
      induction gs with
      | nil => intro _; rfl
      | cons g gs ih =>
        intro hc
        simp only [List.map_cons, List.contains_cons, Bool.or_eq_false_iff, beq_eq_false_iff_ne, ne_eq] at hc
        have hne : ¬ g.name = f.name := fun e => hc.1 e.symm
        simp only [fieldByName, hne, if_false]
        exact ih hc.2
    exact this fs h.1

theorem scalarImg_scalar (n k : String) (v : Val) (cs : List Constraint) (m : Meta) (r : Bool) :
    ∃ b, (scalarImg n (.scalar k v cs m) r).ty = .scalar k v cs { m with nullable := b } := by
  unfold scalarImg imgField fixField
  simp only
  split
  · exact ⟨true, rfl⟩
  · exact ⟨m.nullable, rfl⟩

/-- what a scalar-typed field declares: its constant, else its default -/
theorem declaredOf_scalar (f : Field) {k : String} {v : Val} {cs : List Constraint} {m : Meta} (h : f.ty = .scalar k v cs m) :
    declaredOf f = if v.isNilV then (if m.dflt.isNilV then none else valJson m.dflt) else valJson v := by
  unfold declaredOf
  rw [h]
  cases v <;> cases hd : m.dflt <;> simp [Ty.isConcrete, scalarValue, Ty.getMeta, Val.isNilV, hd]

/-! ### the Python chain: the struct object after `pyS` -/

theorem imgTy_scalar (f : Field) (h : f.ty.isScalar = true) : imgTy f = (imgField f).ty := by
  unfold imgTy imgField
  have : ((fixField f f.ty).ty).isScalar = true := imgField_scalar h
  cases hty : (fixField f f.ty).ty <;> simp_all [Ty.isScalar, nullOpt]

end Cog.Front.Keeps
