/-
  C01 (b) — lemmas for parser soundness: decomposition of `jsv`, documents without duplicate keys,
  nullable widening of `xden` at the top of a type, shapes of the types built for the views, values.
-/
import Cog.Front.JsonSchemaView
import Cog.Sem.WidenOpt
namespace Cog.Front.JsonSchema
open Cog.IR Cog.Sem Cog.Sem.Src Cog.Passes

/-! ### `jsv`, one level -/

structure JsvParts (x : Bool) (fmt : String → String → Bool) (defs : Defs) (n : Nat)
    (a : JAttrs) (oneOf anyOf allOf : List JS) (props : List (String × JS)) (addl : JAddl) (items items2020 : JItems)
    (j : Json) : Prop where
  pRef : refPart x defs (jsv x fmt defs n) a j = true
  pTypes : typesOK x a.types j = true
  pConst : constOKJ a j = true
  pEnum : enumOKJ a j = true
  pAnyOf : (!a.hasAnyOf || anyOf.any (fun s => jsv x fmt defs n s j)) = true
  pOneOf : (!a.hasOneOf || countTrue (oneOf.map fun s => jsv x fmt defs n s j) == 1) = true
  pRequired : requiredOK a j = true
  pBody : bodyPart x (jsv x fmt defs n) a props addl items items2020 j = true
  pAny : (!(x && jsIsAny (.mk a oneOf anyOf allOf props addl items items2020) && !anyExact j)) = true

theorem jsv_parts {x fmt defs n a oneOf anyOf allOf props addl items items2020 j}
    (h : jsv x fmt defs (n + 1) (.mk a oneOf anyOf allOf props addl items items2020) j = true) :
    JsvParts x fmt defs n a oneOf anyOf allOf props addl items items2020 j := by
  rw [jsv] at h
  unfold jsvBody at h
  simp only [Bool.and_eq_true] at h
  obtain ⟨⟨⟨⟨⟨⟨⟨⟨⟨⟨⟨⟨⟨_, h2⟩, h3⟩, h4⟩, h5⟩, _⟩, h7⟩, h8⟩, h9⟩, h10⟩, _⟩, _⟩, _⟩, h14⟩ := h
  exact ⟨h2, h3, h4, h5, h7, h8, h9, h10, h14⟩

/-! ### documents without duplicate member names -/

theorem keysNodup0_eq : ∀ l : List (String × Json), keysNodup0 l = keysNodup l
  | [] => rfl
  | (k, v) :: t => by simp [keysNodup0, keysNodup, keysNodup0_eq t]

theorem wfDeep_obj {ms : List (String × Json)} (h : wfDeep (.obj ms) = true) : keysNodup ms = true := by
  simp only [wfDeep, Bool.and_eq_true] at h
  rw [← keysNodup0_eq]; exact h.1

theorem wfDeepMembers_lookup : ∀ {ms : List (String × Json)} {k : String} {v : Json},
    wfDeepMembers ms = true → Json.lookup k ms = some v → wfDeep v = true
  | [], _, _, _, h => by simp [Json.lookup] at h
  | (k', v') :: t, k, v, hw, h => by
    simp only [wfDeepMembers, Bool.and_eq_true] at hw
    simp only [Json.lookup] at h
    split at h
    · cases h; exact hw.1
    · exact wfDeepMembers_lookup hw.2 h

theorem wfDeep_member {ms : List (String × Json)} {k : String} {v : Json}
    (h : wfDeep (.obj ms) = true) (hl : Json.lookup k ms = some v) : wfDeep v = true := by
  simp only [wfDeep, Bool.and_eq_true] at h
  exact wfDeepMembers_lookup h.2 hl

theorem wfDeepMembers_mem : ∀ {ms : List (String × Json)} {kv : String × Json},
    wfDeepMembers ms = true → kv ∈ ms → wfDeep kv.2 = true
  | [], _, _, h => by cases h
  | (k', v') :: t, kv, hw, h => by
    simp only [wfDeepMembers, Bool.and_eq_true] at hw
    simp only [List.mem_cons] at h
    cases h with
    | inl e => subst e; exact hw.1
    | inr e => exact wfDeepMembers_mem hw.2 e

theorem wfDeep_obj_mem {ms : List (String × Json)} {kv : String × Json}
    (h : wfDeep (.obj ms) = true) (hm : kv ∈ ms) : wfDeep kv.2 = true := by
  simp only [wfDeep, Bool.and_eq_true] at h
  exact wfDeepMembers_mem h.2 hm

theorem wfDeepList_mem : ∀ {xs : List Json} {x : Json}, wfDeepList xs = true → x ∈ xs → wfDeep x = true
  | [], _, _, h => by cases h
  | y :: ys, x, hw, h => by
    simp only [wfDeepList, Bool.and_eq_true] at hw
    simp only [List.mem_cons] at h
    cases h with
    | inl e => subst e; exact hw.1
    | inr e => exact wfDeepList_mem hw.2 e

theorem wfDeep_arr_mem {xs : List Json} {x : Json} (h : wfDeep (.arr xs) = true) (hm : x ∈ xs) : wfDeep x = true := by
  simp only [wfDeep] at h
  exact wfDeepList_mem h hm

/-! ### nullable widening at the top of a type -/

theorem xden_nullable (S : Schemas) (n : Nat) (t : Ty) (j : Json) (h : xden true n S t j = true) :
    xden true n S (setNullable true t) j = true := by
  cases n with
  | zero => simp [xden] at h
  | succ n =>
    cases t with
    | scalar k v cs m => exact xden_setNullable true S _ _ j rfl h
    | ref p nm m => exact xden_setNullable true S _ _ j rfl h
    | enum vals em =>
      cases vals with
      | nil => simp [xden] at h
      | cons v0 rest => exact xden_setNullable true S _ _ j rfl h
    | array e m =>
      rw [setNullable_array]
      simp only [xden, Bool.and_eq_true] at h ⊢
      refine ⟨h.1, ?_⟩
      cases j <;> simp_all
    | map i v m =>
      rw [setNullable_map]
      simp only [xden] at h ⊢
      split
      · cases j with
        | obj kvs => exact h
        | null => rfl
        | bool _ | num _ | str _ | arr _ => exact h
      · simp at h
    | struct fs g gi m =>
      cases gi with
      | none =>
        have : setNullable true (.struct fs g none m) = .struct fs g none { m with nullable := true } := rfl
        rw [this]
        simp only [xden] at h ⊢
        exact or_null_mono h
      | some x => simp [xden] at h
    | disj bs info m =>
      rw [setNullable_disj]
      simp only [xden] at h ⊢
      split
      · rename_i hc; simp only [hc, if_true] at h; exact h
      · rename_i hc; simp only [hc, if_false] at h; exact or_null_mono h
    | cref _ _ _ _ => simp [xden] at h
    | inter _ _ => simp [xden] at h
    | slot _ _ => simp [xden] at h
    | bad _ _ => simp [xden] at h

/-! ### references inside the built types resolve -/

def RefsIn (pkg : String) (S : Schemas) (T : Ty) : Prop :=
  ∀ r ∈ Ty.refs T, r.1 = pkg ∧ (Schemas.locateObject S pkg r.2).isSome = true

/-! ### values -/

theorem parseInt64_range {t : String} {n : Int} (h : parseInt64 t = some n) :
    -9223372036854775808 ≤ n ∧ n ≤ 9223372036854775807 := by
  unfold parseInt64 at h
  have key : ∀ m : Int, (if -9223372036854775808 ≤ m ∧ m ≤ 9223372036854775807 then some m else none) = some n →
      -9223372036854775808 ≤ n ∧ n ≤ 9223372036854775807 := by
    intro m hm
    split at hm
    · rename_i hr; cases hm; exact hr
    · cases hm
  simp only at h
  split at h
  · cases h
  · split at h
    · exact key _ h
    · cases h
  · split at h
    · exact key _ h
    · cases h
  · split at h
    · exact key _ h
    · cases h

theorem denScalar_string (s : String) : denScalar "string" (.str s) = true := by simp [denScalar]
theorem denScalar_bool (b : Bool) : denScalar "bool" (.bool b) = true := by simp [denScalar]
theorem denScalar_float64 (q : Int) : denScalar "float64" (.num q) = true := by simp [denScalar]
theorem denScalar_int64 (q : Int) (h4 : q % 4 = 0) (hr : -9223372036854775808 ≤ q / 4 ∧ q / 4 ≤ 9223372036854775807) :
    denScalar "int64" (.num q) = true := by
  simp [denScalar, intRange, h4, hr.1, hr.2]

theorem denScalar_int64_of_mul (n : Int) (hr : -9223372036854775808 ≤ n ∧ n ≤ 9223372036854775807) :
    denScalar "int64" (.num (4 * n)) = true := by
  apply denScalar_int64
  · omega
  · have : 4 * n / 4 = n := by omega
    rw [this]; exact hr

/-- a document equal to a schema-side scalar matches the unwrapped Go value the generator stores -/
theorem valMatches_unwrap_num {c : JV} {q : Int} (h : jvMatches c (.num q) = true) :
    valMatches (unwrapJSONNumber c) (.num q) = true := by
  cases c with
  | num t f =>
    simp only [jvMatches] at h
    simp only [unwrapJSONNumber]
    cases hp : parseInt64 t with
    | some n => simp only [hp] at h ⊢; simpa [valMatches] using h
    | none =>
      simp only [hp, Bool.and_eq_true, decide_eq_true_eq] at h ⊢
      simp only [h.1, ne_eq, not_false_eq_true, if_true]
      simpa [valMatches] using h.2
  | null => simp [jvMatches] at h
  | bool _ => simp [jvMatches] at h
  | str _ => simp [jvMatches] at h
  | arr _ => simp [jvMatches] at h
  | obj _ => simp [jvMatches] at h

theorem valMatches_toVal_str {c : JV} {s : String} (h : jvMatches c (.str s) = true) :
    valMatches c.toVal (.str s) = true := by
  cases c with
  | str s' => simpa [jvMatches, JV.toVal, valMatches] using h
  | null => simp [jvMatches] at h
  | bool _ => simp [jvMatches] at h
  | num _ _ => simp [jvMatches] at h
  | arr _ => simp [jvMatches] at h
  | obj _ => simp [jvMatches] at h

theorem valMatches_toVal_bool {c : JV} {b : Bool} (h : jvMatches c (.bool b) = true) :
    valMatches c.toVal (.bool b) = true := by
  cases c with
  | bool b' => simpa [jvMatches, JV.toVal, valMatches] using h
  | null => simp [jvMatches] at h
  | str _ => simp [jvMatches] at h
  | num _ _ => simp [jvMatches] at h
  | arr _ => simp [jvMatches] at h
  | obj _ => simp [jvMatches] at h

theorem constOK_of {v : Val} {j : Json} (h : valMatches v j = true) : constOK v j = true := by
  cases v <;> simp_all [constOK]

theorem typesOK_single {x : Bool} {t : String} {j : Json} (h : typesOK x [t] j = true) : typeOK x t j = true := by
  simpa [typesOK] using h

theorem countTrue_one_any {bs : List Bool} (h : (countTrue bs == 1) = true) : bs.any id = true := by
  induction bs with
  | nil => simp [countTrue] at h
  | cons b bs _ => cases b <;> simp_all [countTrue]

end Cog.Front.JsonSchema
