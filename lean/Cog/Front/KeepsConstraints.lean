/-
  Glue between "the front-end keeps a scalar property" and C08's theorem about the generated `Validate()`
  (Props/C08.lean): for a FLAT object definition (every property a typed scalar) the violations C08's specification
  `violations` finds in a value of the post-Go-chain struct are the violations of the struct type written from the SOURCE
  keywords alone (`srcStructTy`: constraint lists in the order of generator.go), under the EMPTY schema set — scalar
  types need no lookups.  Independent of the input format (parameterised by the source-side field list).
-/
import Cog.Front.KeepsDefaults
import Cog.Sem.GoValidateLemmas
namespace Cog.Front.Keeps
open Cog.IR Cog.Sem Cog.Sem.Src Cog.Passes Cog.Sem.C08
open NotRequiredFieldAsNullableType (vTy vFields fixField)
open Cog.Front.JsonSchema (imgField)

/-- C08's `violations` on a scalar type consults no schema -/
theorem violations_scalar_indep (ss ss' : Schemas) (T : Ty) (hs : T.isScalar = true) :
    ∀ (n : Nat) (w : GoVal), violations n ss T w = violations n ss' T w
  | 0, _ => rfl
  | n + 1, w => by
    have hr : ∀ s : Schemas, resolveRefs s T = some T := fun s => resolveRefs_nonref s (by cases T <;> simp_all [Ty.isScalar, Ty.isRef])
    simp only [violations, hr]
    split
    · rfl
    · cases hu : w.unptr with
      | some w' => exact violations_scalar_indep ss ss' T hs n w'
      | none =>
        cases T <;> simp [Ty.isScalar] at hs
        simp only [specAt]

/-- two field lists that agree on names and (scalar) types give the same `specFields` -/
inductive SameFields : List Field → List Field → Prop
  | nil : SameFields [] []
  | cons {f g : Field} {fs gs : List Field} : f.name = g.name → f.ty = g.ty → f.required = g.required →
      f.ty.isScalar = true → SameFields fs gs → SameFields (f :: fs) (g :: gs)

theorem specFields_same (ss ss' : Schemas) (n : Nat) : ∀ {fs gs : List Field}, SameFields fs gs →
    ∀ (fvs : List (String × GoVal)), specFields (violations n ss) fs fvs = specFields (violations n ss') gs fvs
  | _, _, .nil, fvs => by cases fvs <;> rfl
  | _, _, .cons hn ht _ hs rest, fvs => by
    cases fvs with
    | nil => rfl
    | cons nv fvs =>
      obtain ⟨nm, w⟩ := nv
      simp only [specFields, hn, ← ht, violations_scalar_indep ss ss' _ hs n w, specFields_same ss ss' n rest fvs]

/-- `violations` at a reference to a struct object of flat scalar fields = `violations` at the source-side struct type,
    for every value and fuel -/
theorem violations_flat (ss : Schemas) (pkg name : String) (o : Obj) (fs gs : List Field) (g : List Ty)
    (gi : Option (String × DisjInfo)) (m : Meta)
    (hloc : Schemas.locateObject ss pkg name = some o) (hty : o.ty = .struct fs g gi m) (hsame : SameFields fs gs) :
    ∀ (n : Nat) (v : GoVal), violations n ss (.ref pkg name {}) v = violations n [] (.struct gs [] none {}) v
  | 0, _ => rfl
  | n + 1, v => by
    have h1 : resolveRefs ss (.ref pkg name {}) = some (.struct fs g gi m) := by
      rw [resolveRefs_ref_located ss _ hloc, hty, resolveToType_struct ss _ (by simp [Ty.isStruct])]
    have h2 : resolveRefs [] (.struct gs [] none {}) = some (.struct gs [] none {}) := resolveRefs_nonref [] (by simp [Ty.isRef])
    simp only [violations, h1, h2]
    split
    · rfl
    · cases hu : v.unptr with
      | some v' => exact violations_flat ss pkg name o fs gs g gi m hloc hty hsame n v'
      | none =>
        simp only [specAt]
        cases fieldVals v with
        | none => rfl
        | some fvs => exact specFields_same ss [] n hsame fvs

/-- the image fields of a list of scalar-typed fields -/
theorem vFields_same : ∀ {fs gs : List Field}, SameFields fs gs → SameFields (vFields fs) (gs.map imgField)
  | _, _, .nil => .nil
  | _, _, .cons (f := f) (g := g) hn ht hr hs rest => by
    have hv : vTy f.ty = f.ty := by
      revert hs
      cases f.ty <;> simp [Ty.isScalar, vTy]
    simp only [vFields, List.map_cons, hv]
    obtain ⟨a1, a2, _⟩ := imgField_parts f
    obtain ⟨b1, b2, _⟩ := imgField_parts g
    have hty : (imgField f).ty = (imgField g).ty := by
      simp only [imgField, fixField, ht, hr]
      split <;> rfl
    exact .cons (by rw [show (fixField f f.ty) = imgField f from rfl, a1, b1, hn]) hty
      (by rw [show (fixField f f.ty) = imgField f from rfl, a2, b2, hr]) (imgField_scalar hs) (vFields_same rest)

/-! ### JSON Schema: the built fields of a flat object definition are the source-side fields -/

open Cog.Front.JsonSchema in
theorem fieldsBuilt_same {pkg defs req} : ∀ {ps : List (String × JS)} {fs gs : List Field},
    FieldsBuilt pkg defs req ps fs → rawFields req ps = some gs → SameFields fs gs
  | _, _, gs, .nil, h => by simp [rawFields] at h; subst h; exact .nil
  | _, _, gs, .cons (p := p) (f := f) (ps := ps) hx rest, h => by
    simp only [rawFields] at h
    cases hsc : scalarNode p.2 with
    | none => simp [hsc] at h
    | some t =>
      cases hr : rawFields req ps with
      | none => simp [hsc, hr] at h
      | some gs' =>
        rw [hsc, hr] at h
        simp only [Option.some.injEq] at h
        subst h
        obtain ⟨pk, sk⟩ := p
        obtain ⟨pa, po, pn, pl, pp, pad, pi, pi2⟩ := sk
        have hty : f.ty = scalarOf pa t := builds_scalar hsc hx.2.2
        exact .cons hx.1 hty hx.2.1 (by rw [hty, scalarOf_eq]; rfl) (fieldsBuilt_same rest hr)

end Cog.Front.Keeps
