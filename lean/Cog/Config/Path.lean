/-
  C20 — injecting an unknown key at an arbitrary depth.  Paths, the node the decoder reaches
  along a path, insertion of a key at that node, and the lemmas showing that one failing entry
  makes every enclosing mapping/sequence fail (yaml.v3 collects all errors, the model is an
  `all`).  Core Lean only.
-/
import Cog.Config.Facts
namespace Cog.Config

inductive Step where
  | key (k : Key)      -- descend into the value of the first entry with this key
  | idx (i : Nat)      -- descend into the i-th element of a sequence

abbrev Path := List Step

/-- replace the value of the first entry whose key is `k` -/
def setKey (k : Key) (v' : Yaml) : List (Key × Yaml) → List (Key × Yaml)
  | [] => []
  | (a, v) :: t => if a = k then (a, v') :: t else (a, v) :: setKey k v' t

/-- apply `f` to the node at `path` (identity when the path leaves the document) -/
def updateAt (f : Yaml → Yaml) : Path → Yaml → Yaml
  | [], y => f y
  | .key k :: p, .map kvs =>
    match assoc k kvs with
    | some v => .map (setKey k (updateAt f p v) kvs)
    | none => .map kvs
  | .idx i :: p, .seq xs =>
    match xs[i]? with
    | some v => .seq (xs.set i (updateAt f p v))
    | none => .seq xs
  | _ :: _, y => y

/-- add the entry `(k, v)` at position `pos` of a mapping -/
def addKey (pos : Nat) (k : Key) (v : Yaml) : Yaml → Yaml
  | .map kvs => .map (kvs.take pos ++ (k, v) :: kvs.drop pos)
  | y => y

/-- the document `y` with entry `(k, v)` inserted (at position `pos`) into the mapping at `path` -/
def insertKey (y : Yaml) (path : Path) (pos : Nat) (k : Key) (v : Yaml) : Yaml :=
  updateAt (addKey pos k v) path y

/-- The struct the strict decoder is filling when it reaches the node at `path`:
    `some d` iff every node along the path has the kind its Go type expects (so yaml.v3 does
    descend), the path exists in the document, and the node reached is a mapping decoded into
    the struct `d`. -/
def recordAt (env : LEnv) : LTy → Yaml → Path → Option LDef
  | .ref n, .map _, [] => env[n]?
  | .ref n, .map kvs, .key k :: p =>
    match env[n]?, assoc k kvs with
    | some d, some v =>
      (match d.child k with
       | some t => recordAt env t v p
       | none => none)
    | _, _ => none
  | .fmap e, .map kvs, .key k :: p =>
    match assoc k kvs with
    | some v => recordAt env e v p
    | none => none
  | .list e, .seq xs, .idx i :: p =>
    match xs[i]? with
    | some v => recordAt env e v p
    | none => none
  | _, _, _ => none

/-! ### one bad entry spoils the container -/

theorem decFields_append (env : LEnv) (d : LDef) (l1 l2 : List (Key × Yaml)) :
    decFields env d (l1 ++ l2) = (decFields env d l1 && decFields env d l2) := by
  induction l1 with
  | nil => simp [decFields]
  | cons e t ih => obtain ⟨k, v⟩ := e; simp [decFields, ih, Bool.and_assoc]

theorem decFields_unknown (env : LEnv) (d : LDef) (k : Key) (v : Yaml) (rest : List (Key × Yaml))
    (h : d.child k = none) : decFields env d ((k, v) :: rest) = false := by
  simp [decFields, h]

theorem decFields_setKey (env : LEnv) (d : LDef) (k : Key) (t : LTy) (v' : Yaml)
    (hc : d.child k = some t) (hv : strictDecode env t v' = false) :
    ∀ (kvs : List (Key × Yaml)) (v : Yaml), assoc k kvs = some v →
      decFields env d (setKey k v' kvs) = false
  | [], _, h => by simp [assoc] at h
  | (a, w) :: rest, v, h => by
    by_cases ha : a = k
    · subst ha; simp [setKey, decFields, hc, hv]
    · simp only [assoc, ha, if_false] at h
      simp [setKey, ha, decFields, decFields_setKey env d k t v' hc hv rest v h]

theorem decVals_setKey (env : LEnv) (e : LTy) (k : Key) (v' : Yaml)
    (hv : strictDecode env e v' = false) :
    ∀ (kvs : List (Key × Yaml)) (v : Yaml), assoc k kvs = some v →
      decVals env e (setKey k v' kvs) = false
  | [], _, h => by simp [assoc] at h
  | (a, w) :: rest, v, h => by
    by_cases ha : a = k
    · subst ha; simp [setKey, decVals, hv]
    · simp only [assoc, ha, if_false] at h
      simp [setKey, ha, decVals, decVals_setKey env e k v' hv rest v h]

theorem decAll_set (env : LEnv) (e : LTy) (v' : Yaml) (hv : strictDecode env e v' = false) :
    ∀ (xs : List Yaml) (i : Nat) (v : Yaml), xs[i]? = some v →
      decAll env e (xs.set i v') = false
  | [], _, _, h => by simp at h
  | x :: rest, 0, _, _ => by simp [decAll, hv]
  | x :: rest, i + 1, v, h => by
    simp only [List.getElem?_cons_succ] at h
    simp [decAll, decAll_set env e v' hv rest i v h]

/-- **Unknown key, any depth (loader side).** -/
theorem insert_unknown_rejected (env : LEnv) (k : Key) (v : Yaml) (pos : Nat) :
    ∀ (path : Path) (t : LTy) (y : Yaml) (d : LDef),
      recordAt env t y path = some d → d.child k = none →
      strictDecode env t (insertKey y path pos k v) = false
  | [], t, y, d, hr, hk => by
    cases t <;> cases y <;> simp [recordAt] at hr
    rename_i n kvs
    simp only [insertKey, updateAt, addKey, strictDecode, hr, decFields_append,
      decFields_unknown env d k v _ hk]
    simp
  | .key k' :: p, t, y, d, hr, hk => by
    cases t <;> cases y <;> simp only [recordAt] at hr <;> try (exact absurd hr (by simp))
    · rename_i n kvs
      cases hd : env[n]? with
      | none => simp [hd] at hr
      | some d' =>
        cases hv : assoc k' kvs with
        | none => simp [hd, hv] at hr
        | some w =>
          simp only [hd, hv] at hr
          cases hc : d'.child k' with
          | none => simp [hc] at hr
          | some t' =>
            simp only [hc] at hr
            have ih := insert_unknown_rejected env k v pos p t' w d hr hk
            simp only [insertKey, updateAt, hv, strictDecode, hd]
            exact decFields_setKey env d' k' t' _ hc ih kvs w hv
    · rename_i e kvs
      cases hv : assoc k' kvs with
      | none => simp [hv] at hr
      | some w =>
        simp only [hv] at hr
        have ih := insert_unknown_rejected env k v pos p e w d hr hk
        simp only [insertKey, updateAt, hv, strictDecode]
        exact decVals_setKey env e k' _ ih kvs w hv
  | .idx i :: p, t, y, d, hr, hk => by
    cases t <;> cases y <;> simp only [recordAt] at hr <;> try (exact absurd hr (by simp))
    rename_i e xs
    cases hv : xs[i]? with
    | none => simp [hv] at hr
    | some w =>
      simp only [hv] at hr
      have ih := insert_unknown_rejected env k v pos p e w d hr hk
      simp only [insertKey, updateAt, hv, strictDecode]
      exact decAll_set env e _ ih xs i w hv

end Cog.Config
