/-
  C20 — evaluator of the model on cases emitted by the harness (correspondence stream).
  Not a dependency of any theorem.  Run through a two-line wrapper with
  `lake env lean --run <wrapper> <cases file>` (see checks/c20.py); the C20 check does not own
  lean/Main.lean, so the model is evaluated by the Lean interpreter instead of the `drv` binary.

  request : `<file> <doc>`      file ∈ pipeline|compiler|veneers
            doc ::= n | s | [ doc* ] | { (key doc)* }      (tokens separated by one space)
  reply   : `L=<0|1> P=<0|1> R=<0|1>`
            L = strictDecode (no unknown-field error), P = pubAccepts (no additionalProperties
            failure), R = loadOK (L and every rule entry has a recognised member)
-/
import Cog.Gen.ConfigFacts
namespace Cog.Config
open Cog.Gen.ConfigFacts

/-- key name ↦ id; a name outside the table gets an id outside the table -/
def intern (k : String) : Key :=
  let rec go : List String → Nat → Nat
    | [], i => i
    | a :: t, i => if a == k then i else go t (i + 1)
  go keyNames 0

mutual
def parseVal : Nat → List String → Option (Yaml × List String)
  | 0, _ => none
  | _ + 1, "n" :: r => some (.null, r)
  | _ + 1, "s" :: r => some (.scalar "", r)
  | f + 1, "[" :: r => parseSeq f r []
  | f + 1, "{" :: r => parseMap f r []
  | _ + 1, _ => none
def parseSeq : Nat → List String → List Yaml → Option (Yaml × List String)
  | 0, _, _ => none
  | _ + 1, "]" :: r, acc => some (.seq acc.reverse, r)
  | f + 1, toks, acc =>
    match parseVal f toks with
    | some (v, r) => parseSeq f r (v :: acc)
    | none => none
def parseMap : Nat → List String → List (Key × Yaml) → Option (Yaml × List String)
  | 0, _, _ => none
  | _ + 1, "}" :: r, acc => some (.map acc.reverse, r)
  | f + 1, k :: toks, acc =>
    match parseVal f toks with
    | some (v, r) => parseMap f r ((intern k, v) :: acc)
    | none => none
  | _ + 1, [], _ => none
end

def b2s (b : Bool) : String := if b then "1" else "0"

def evalLine (line : String) : String :=
  match (line.splitOn " ").filter (· ≠ "") with
  | [] => "bad-request"
  | fname :: toks =>
    match [pipeline, compiler, veneers].find? (·.name == fname) with
    | none => "bad-file"
    | some F =>
      match parseVal (2 * toks.length + 2) toks with
      | some (y, []) =>
        s!"L={b2s (strictDecode F.lenv (.ref F.lroot) y)} P={b2s (pubAccepts F.penv (.ref F.proot) y)} R={b2s (loadOK F y)}"
      | _ => "bad-doc"

def evalMain (args : List String) : IO UInt32 := do
  match args with
  | [path] =>
    let lines ← IO.FS.lines path
    let out ← IO.getStdout
    for l in lines do
      out.putStrLn (evalLine l)
    out.flush
    return 0
  | _ =>
    IO.eprintln "usage: <cases file>"
    return 2

end Cog.Config
