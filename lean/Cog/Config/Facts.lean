/-
  C20 — shape of the regenerated tables (`Cog.Gen.ConfigFacts`) and the decidable checks that
  are run on them by the kernel (`decide +kernel`): tree bisimilarity of the loader key table and
  the published key table, strictness of the decoder construction sites, completeness of the
  recognised members of each rule entry.  Core Lean only.
-/
import Cog.Config.Model
namespace Cog.Config

structure UnionFacts where
  name : String
  defId : Nat                   -- index of the rule-entry struct in `lenv`
  recognised : List Key         -- keys whose member has an `if x.F != nil { return … }` arm

structure FileFacts where
  name : String
  schema : String
  lnames : List String
  lenv : LEnv
  lroot : Nat
  pnames : List String
  penv : PEnv
  proot : Nat
  /-- hint computed by the extractor: the loader type each published definition is matched
      with. Untrusted: `bisimCheck` verifies it. -/
  rOf : List (Option LTy)
  unions : List UnionFacts
  /-- (top-level key, index of the rule-entry struct) -/
  ruleLists : List (Key × Nat)

structure DecoderSite where
  file : String
  func : String
  knownFields : Bool
  target : String
  loader : String

/-! ### bisimilarity check -/

mutual
/-- `nodeMatch lenv rOf lt pt`: loader type `lt` and published node `pt` accept the same keys,
    assuming the pairs recorded in `rOf`. Conservative: anything it does not recognise is
    `false`. -/
def nodeMatch (lenv : LEnv) (rOf : List (Option LTy)) : LTy → PTy → Bool
  | lt, .ref b => rOf[b]? == some (some lt)
  | .scalar, .top => true
  | .scalar, .scalar => true
  | .any, .top => true
  | .any, .scalar => true
  | .list e, .arr it => nodeMatch lenv rOf e it
  | .fmap e, .obj [] addl => nodeMatch lenv rOf e addl
  | .ref a, .obj props addl =>
    match lenv[a]? with
    | some d =>
      propsMatch lenv rOf d.fields props &&
      (match d.inlineMap with
       | none => addl.isBot
       | some t => nodeMatch lenv rOf t addl)
    | none => false
  | _, _ => false
/-- both key lists in the same order (the extractor sorts both), children matched pairwise -/
def propsMatch (lenv : LEnv) (rOf : List (Option LTy)) : List (Key × LTy) → List (Key × PTy) → Bool
  | [], [] => true
  | (k, t) :: fs, (k', p) :: ps => (k == k') && nodeMatch lenv rOf t p && propsMatch lenv rOf fs ps
  | _, _ => false
end

/-- every published definition `$defs[j]` that carries a hint matches it, and `$ref j` reaches a
    keyword node within `|$defs|` steps (no bare `$ref` cycle) -/
def defsMatch (lenv : LEnv) (penv : PEnv) (rOf : List (Option LTy)) :
    Nat → PEnv → List (Option LTy) → Bool
  | _, [], [] => true
  | j, pd :: ps, r :: rs =>
    (match r with
     | none => true
     | some lt => nodeMatch lenv rOf lt pd && !(resolve penv penv.length (.ref j)).isRef) &&
    defsMatch lenv penv rOf (j + 1) ps rs
  | _, _, _ => false

def bisimCheck (F : FileFacts) : Bool :=
  (F.rOf[F.proot]? == some (some (.ref F.lroot))) && defsMatch F.lenv F.penv F.rOf 0 F.penv F.rOf

/-! ### rule entries -/

def keysOf {α : Type} (l : List (Key × α)) : List Key := l.map (·.1)

/-- the recognised members of every rule entry are exactly the keys the struct declares, and the
    struct has no `,inline` map -/
def unionsComplete (F : FileFacts) : Bool :=
  F.unions.all fun u =>
    match F.lenv[u.defId]? with
    | some d => d.inlineMap.isNone && (keysOf d.fields).all (u.recognised.contains ·) &&
                u.recognised.all ((keysOf d.fields).contains ·)
    | none => false

/-- members of the rule list stored under a top-level key -/
def FileFacts.members (F : FileFacts) (defId : Nat) : List Key :=
  match F.unions.find? (·.defId == defId) with
  | some u => u.recognised
  | none => []

/-- every rule list names a union, is a root key of type `list (ref union)` -/
def ruleListsOK (F : FileFacts) : Bool :=
  F.ruleLists.all fun (k, u) =>
    (F.unions.any (·.defId == u)) &&
    (match F.lenv[F.lroot]? with
     | some d => assoc k d.fields == some (.list (.ref u))
     | none => false)

/-- the loader as a whole, keys and rule entries: strict decoding, then every entry of every
    rule list must have a recognised member.  Not part of it (no key and no rule entry is
    involved): the compiler-passes and veneers loaders reject a NULL DOCUMENT after decoding
    ("empty … file"), the veneers loader requires a non-empty `package`. -/
def loadOK (F : FileFacts) (y : Yaml) : Bool :=
  strictDecode F.lenv (.ref F.lroot) y &&
  F.ruleLists.all fun (k, u) =>
    match y with
    | .map kvs =>
      (match assoc k kvs with
       | some v => rulesOK (F.members u) v
       | none => true)
    | _ => true

/-! ### decoder construction sites -/

def sitesStrict (sites : List DecoderSite) : Bool := sites.all (·.knownFields)

def sitesCover (sites : List DecoderSite) (loaders : List String) : Bool :=
  loaders.all fun l => sites.any fun s => s.loader == l && s.knownFields

end Cog.Config
