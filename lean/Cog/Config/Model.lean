/-
  C20 — model of how cog's three YAML configuration files are decoded (loader side) and of what
  the published JSON Schemas accept (published side), restricted to KEY acceptance.

  Core Lean only.

  Keys are interned: `Key = Nat`, an index into the regenerated table
  `Cog.Gen.ConfigFacts.keyNames`; a key that is not part of the configuration language is any
  id outside the tables.  Nothing below depends on the interning being dense.

  Adaptation w.r.t. DESIGN.md: `ast.Type` is recursive (`array.value_type : Type`), so a record
  cannot carry its fields inline; records are named definitions in an environment (`LEnv`,
  one entry per Go struct; `PEnv`, one entry per `$defs` member) and type expressions refer to
  them with `ref`.  The `ConfTy.record` constructor of the design is `LTy.ref` + `LDef`.
-/
namespace Cog.Config

abbrev Key := Nat

/-- A YAML document after anchors/aliases and merge keys have been resolved. Scalar content is
    irrelevant for key acceptance; `null` is kept apart because a null member of a rule entry
    leaves the Go pointer nil. -/
inductive Yaml where
  | null
  | scalar (s : String)
  | seq (xs : List Yaml)
  | map (kvs : List (Key × Yaml))

def Yaml.isNull : Yaml → Bool
  | .null => true
  | _ => false

/-- first-match association list lookup -/
def assoc {α : Type} (k : Key) : List (Key × α) → Option α
  | [] => none
  | (a, b) :: t => if a = k then some b else assoc k t

/-! ### loader side: what yaml.v3 does with `KnownFields(true)` -/

/-- Type expression in field position, as yaml.v3 sees the Go type (pointers erased: a YAML
    null decodes into anything). -/
inductive LTy where
  | scalar                 -- bool, ints, floats, string and named versions of them
  | any                    -- `any` / `interface{}`: decoded generically, nothing is checked below
  | ref (n : Nat)          -- struct, index into `LEnv`
  | list (e : LTy)         -- slice / array
  | fmap (e : LTy)         -- map[string]T: every key accepted
  deriving DecidableEq, Repr

/-- One Go struct as yaml.v3's `getStructInfo` sees it: its keys (explicit tag, else lower-cased
    field name, `,inline` structs flattened, `-` and unexported fields absent) and the optional
    `,inline` map that swallows every other key. -/
structure LDef where
  fields : List (Key × LTy)
  inlineMap : Option LTy

abbrev LEnv := List LDef

/-- type of the value of key `k` in struct `d`, `none` when yaml.v3 reports
    `field k not found in type T` -/
def LDef.child (d : LDef) (k : Key) : Option LTy :=
  match assoc k d.fields with
  | some t => some t
  | none => d.inlineMap

mutual
/-- `strictDecode env t y = true` iff decoding `y` into a value of type `t` with
    `KnownFields(true)` produces NO `field … not found in type …` error.  yaml.v3 descends into a
    node only when its kind fits the Go type (mapping→struct/map, sequence→slice); on a kind
    mismatch it records a type error and does not look below, so no key error can come from
    there: those cases are `true` here (value typing is a separate component of the verdict and
    not part of C20). -/
def strictDecode (env : LEnv) : LTy → Yaml → Bool
  | .ref n, .map kvs =>
    match env[n]? with
    | some d => decFields env d kvs
    | none => false
  | .list e, .seq xs => decAll env e xs
  | .fmap e, .map kvs => decVals env e kvs
  | _, _ => true
/-- struct: every entry of the mapping is checked (yaml.v3 does not stop at the first error) -/
def decFields (env : LEnv) (d : LDef) : List (Key × Yaml) → Bool
  | [] => true
  | (k, v) :: rest =>
    (match d.child k with
     | some t => strictDecode env t v
     | none => false) && decFields env d rest
def decAll (env : LEnv) (e : LTy) : List Yaml → Bool
  | [] => true
  | v :: rest => strictDecode env e v && decAll env e rest
def decVals (env : LEnv) (e : LTy) : List (Key × Yaml) → Bool
  | [] => true
  | (_, v) :: rest => strictDecode env e v && decVals env e rest
end

/-! ### rule entries: "union of optional members" structs and their `As…()` functions -/

/-- `CompilerPass`, `BuilderRule`, `OptionRule` are structs of pointers; `As…()` returns the
    first non-nil member and `fmt.Errorf("empty …")` when there is none.  A pointer member is
    non-nil iff its key is present with a non-null value. -/
def recognised (members : List Key) : Yaml → Bool
  | .map kvs => kvs.any fun kv => members.contains kv.1 && !kv.2.isNull
  | _ => false

/-- The value found under a rule-list key (`passes`, `builders`, `options`).  A NULL list item
    (`- ~`, or a bare `-`) is not an entry for the loader: yaml.v3's `sequence` drops an element
    whose decoding returns false, and `null` into a struct does (decode.go: `d.null` only sets
    interfaces, pointers, maps and slices).  The slice the `As…()` loop sees does not contain
    it. -/
def rulesOK (members : List Key) : Yaml → Bool
  | .seq es => es.all fun e => e.isNull || recognised members e
  | _ => true

/-! ### published side: the JSON Schema subset of schemas/*.json, keys only -/

/-- `top` = `true`/`{}`; `bot` = `false` (what `additionalProperties: false` applies to every
    undeclared member); `scalar` = `type: string|boolean|integer|number`; `arr` = `type: array`
    with `items`; `obj` = `type: object` with `properties` and `additionalProperties`
    (absent = `top`). -/
inductive PTy where
  | top
  | bot
  | scalar
  | ref (n : Nat)
  | arr (items : PTy)
  | obj (props : List (Key × PTy)) (addl : PTy)

abbrev PEnv := List PTy

def PTy.isRef : PTy → Bool
  | .ref _ => true
  | _ => false

def PTy.isBot : PTy → Bool
  | .bot => true
  | _ => false

/-- chase `$ref`s (at most `fuel` of them) until a keyword node is reached -/
def resolve (env : PEnv) : Nat → PTy → PTy
  | 0, t => t
  | f + 1, .ref n =>
    match env[n]? with
    | some t => resolve env f t
    | none => .ref n
  | _ + 1, t => t

mutual
/-- keyword node (already resolved) against a document: `properties`/`additionalProperties`
    apply to objects only and `items` to arrays only (JSON Schema core); `type` is value typing
    and ignored here. -/
def accHead (env : PEnv) : PTy → Yaml → Bool
  | .bot, _ => false
  | .ref _, _ => false          -- dangling or cyclic `$ref`: no validator compiles that schema
  | .obj props addl, .map kvs => accProps env props addl kvs
  | .arr it, .seq xs => accAll env it xs
  | _, _ => true
def accProps (env : PEnv) (props : List (Key × PTy)) (addl : PTy) : List (Key × Yaml) → Bool
  | [] => true
  | (k, v) :: rest =>
    (match assoc k props with
     | some p => accHead env (resolve env env.length p) v
     | none => accHead env (resolve env env.length addl) v) && accProps env props addl rest
def accAll (env : PEnv) (it : PTy) : List Yaml → Bool
  | [] => true
  | v :: rest => accHead env (resolve env env.length it) v && accAll env it rest
end

/-- `pubAccepts env s y = true` iff validating `y` against `s` produces no
    `additionalProperties` failure. -/
def pubAccepts (env : PEnv) (s : PTy) (y : Yaml) : Bool :=
  accHead env (resolve env env.length s) y

end Cog.Config
