/-
  C20 — soundness of the table check: if `bisimCheck F = true` then the loader tree and the
  published tree of `F` accept the same keys in EVERY document (structural induction on the
  document; the check itself only looks at the finite tables).
-/
import Cog.Config.Facts
namespace Cog.Config

theorem resolve_nonref (env : PEnv) (f : Nat) (t : PTy) (h : t.isRef = false) :
    resolve env f t = t := by
  cases f <;> cases t <;> simp_all [resolve, PTy.isRef]

/-- what `defsMatch` establishes, as a property of the hint table -/
def HintOK (lenv : LEnv) (penv : PEnv) (rOf : List (Option LTy)) : Prop :=
  ∀ j lt, rOf[j]? = some (some lt) →
    ∃ pd, penv[j]? = some pd ∧ nodeMatch lenv rOf lt pd = true ∧
      (resolve penv penv.length (.ref j)).isRef = false

theorem defsMatch_spec (lenv : LEnv) (penv : PEnv) (rOf : List (Option LTy)) :
    ∀ (ps : PEnv) (rs : List (Option LTy)) (j : Nat),
      defsMatch lenv penv rOf j ps rs = true →
      ∀ i lt, rs[i]? = some (some lt) →
        ∃ pd, ps[i]? = some pd ∧ nodeMatch lenv rOf lt pd = true ∧
          (resolve penv penv.length (.ref (j + i))).isRef = false
  | [], [], _, _, i, lt, hi => by simp at hi
  | [], _ :: _, _, h, _, _, _ => by simp [defsMatch] at h
  | _ :: _, [], _, h, _, _, _ => by simp [defsMatch] at h
  | pd :: ps, r :: rs, j, h, i, lt, hi => by
    simp only [defsMatch, Bool.and_eq_true] at h
    cases i with
    | zero =>
      simp only [List.getElem?_cons_zero, Option.some.injEq] at hi
      subst hi
      simp only [Bool.and_eq_true, Bool.not_eq_true'] at h
      exact ⟨pd, rfl, h.1.1, by simpa using h.1.2⟩
    | succ i =>
      simp only [List.getElem?_cons_succ] at hi
      obtain ⟨pd', h1, h2, h3⟩ := defsMatch_spec lenv penv rOf ps rs (j + 1) h.2 i lt hi
      exact ⟨pd', by simpa using h1, h2, by
        have : j + 1 + i = j + (i + 1) := by omega
        rw [this] at h3; exact h3⟩

theorem bisimCheck_hint (F : FileFacts) (h : bisimCheck F = true) :
    HintOK F.lenv F.penv F.rOf := by
  simp only [bisimCheck, Bool.and_eq_true] at h
  intro j lt hj
  have := defsMatch_spec F.lenv F.penv F.rOf F.penv F.rOf 0 h.2 j lt hj
  simpa using this

theorem bisimCheck_root (F : FileFacts) (h : bisimCheck F = true) :
    nodeMatch F.lenv F.rOf (.ref F.lroot) (.ref F.proot) = true := by
  simp only [bisimCheck, Bool.and_eq_true] at h
  simp only [nodeMatch]
  exact h.1

section
variable {lenv : LEnv} {penv : PEnv} {rOf : List (Option LTy)}

theorem nodeMatch_ref (lt : LTy) (b : Nat) :
    nodeMatch lenv rOf lt (.ref b) = (rOf[b]? == some (some lt)) := by
  cases lt <;> simp [nodeMatch]

/-- chasing `$ref`s preserves the match -/
theorem nodeMatch_resolve (H : HintOK lenv penv rOf) :
    ∀ (f : Nat) (pt : PTy) (lt : LTy), nodeMatch lenv rOf lt pt = true →
      nodeMatch lenv rOf lt (resolve penv f pt) = true
  | 0, pt, lt, h => by simpa [resolve] using h
  | f + 1, pt, lt, h => by
    cases hp : pt.isRef with
    | false => rw [resolve_nonref _ _ _ hp]; exact h
    | true =>
      cases pt <;> simp [PTy.isRef] at hp
      rename_i b
      rw [nodeMatch_ref] at h
      obtain ⟨pd, h1, h2, _⟩ := H b lt (by simpa using h)
      simp only [resolve, h1]
      exact nodeMatch_resolve H f pd lt h2

/-- a matched node resolves to a keyword node within `|penv|` steps -/
theorem matched_resolves (H : HintOK lenv penv rOf) (pt : PTy) (lt : LTy)
    (h : nodeMatch lenv rOf lt pt = true) : (resolve penv penv.length pt).isRef = false := by
  cases hp : pt.isRef with
  | false => rw [resolve_nonref _ _ _ hp]; exact hp
  | true =>
    cases pt <;> simp [PTy.isRef] at hp
    rename_i b
    rw [nodeMatch_ref] at h
    obtain ⟨_, _, _, h3⟩ := H b lt (by simpa using h)
    exact h3

theorem propsMatch_assoc :
    ∀ (fs : List (Key × LTy)) (ps : List (Key × PTy)), propsMatch lenv rOf fs ps = true →
      ∀ k, (assoc k fs = none ∧ assoc k ps = none) ∨
           (∃ t p, assoc k fs = some t ∧ assoc k ps = some p ∧ nodeMatch lenv rOf t p = true)
  | [], [], _, k => by simp [assoc]
  | [], _ :: _, h, _ => by simp [propsMatch] at h
  | _ :: _, [], h, _ => by simp [propsMatch] at h
  | (a, t) :: fs, (a', p) :: ps, h, k => by
    simp only [propsMatch, Bool.and_eq_true, beq_iff_eq] at h
    obtain ⟨⟨ha, hm⟩, hr⟩ := h
    subst ha
    by_cases hk : a = k
    · simp only [assoc, hk, if_true]
      exact Or.inr ⟨t, p, rfl, rfl, hm⟩
    · simp only [assoc, hk, if_false]
      exact propsMatch_assoc fs ps hr k

theorem accHead_bot (v : Yaml) : accHead penv .bot v = false := by
  cases v <;> simp [accHead]

mutual
/-- the core: a matched pair accepts the same documents -/
theorem sound_y (H : HintOK lenv penv rOf) :
    ∀ (y : Yaml) (lt : LTy) (pt : PTy), nodeMatch lenv rOf lt pt = true →
      strictDecode lenv lt y = accHead penv (resolve penv penv.length pt) y
  | y, lt, pt, h => by
    have h' := nodeMatch_resolve H penv.length pt lt h
    have hr := matched_resolves H pt lt h
    generalize resolve penv penv.length pt = r at h' hr
    cases y with
    | null => cases r <;> cases lt <;> simp_all [nodeMatch, strictDecode, accHead, PTy.isRef]
    | scalar s => cases r <;> cases lt <;> simp_all [nodeMatch, strictDecode, accHead, PTy.isRef]
    | seq xs =>
      cases r with
      | arr it =>
        cases lt <;> simp [nodeMatch] at h'
        rename_i e
        simp only [strictDecode, accHead]
        exact sound_xs H xs e it h'
      | top => cases lt <;> simp_all [nodeMatch, strictDecode, accHead]
      | bot => cases lt <;> simp_all [nodeMatch]
      | scalar => cases lt <;> simp_all [nodeMatch, strictDecode, accHead]
      | ref b => simp [PTy.isRef] at hr
      | obj props addl => cases lt <;> simp_all [nodeMatch, strictDecode, accHead]
    | map kvs =>
      cases r with
      | obj props addl =>
        cases lt with
        | ref a =>
          simp only [nodeMatch] at h'
          cases hd : lenv[a]? with
          | none => simp [hd] at h'
          | some d =>
            simp only [hd, Bool.and_eq_true] at h'
            simp only [strictDecode, hd, accHead]
            exact sound_fields H kvs d props addl h'.1 h'.2
        | fmap e =>
          cases props with
          | nil =>
            simp only [nodeMatch] at h'
            simp only [strictDecode, accHead]
            exact sound_vals H kvs e addl h'
          | cons _ _ => simp [nodeMatch] at h'
        | scalar => simp [nodeMatch] at h'
        | any => simp [nodeMatch] at h'
        | list e => simp [nodeMatch] at h'
      | top => cases lt <;> simp_all [nodeMatch, strictDecode, accHead]
      | bot => cases lt <;> simp_all [nodeMatch]
      | scalar => cases lt <;> simp_all [nodeMatch, strictDecode, accHead]
      | ref b => simp [PTy.isRef] at hr
      | arr it => cases lt <;> simp_all [nodeMatch, strictDecode, accHead]
theorem sound_xs (H : HintOK lenv penv rOf) :
    ∀ (xs : List Yaml) (e : LTy) (it : PTy), nodeMatch lenv rOf e it = true →
      decAll lenv e xs = accAll penv it xs
  | [], _, _, _ => by simp [decAll, accAll]
  | v :: rest, e, it, h => by
    simp only [decAll, accAll]
    rw [sound_y H v e it h, sound_xs H rest e it h]
theorem sound_vals (H : HintOK lenv penv rOf) :
    ∀ (kvs : List (Key × Yaml)) (e : LTy) (addl : PTy), nodeMatch lenv rOf e addl = true →
      decVals lenv e kvs = accProps penv [] addl kvs
  | [], _, _, _ => by simp [decVals, accProps]
  | (k, v) :: rest, e, addl, h => by
    simp only [decVals, accProps, assoc]
    rw [sound_y H v e addl h, sound_vals H rest e addl h]
theorem sound_fields (H : HintOK lenv penv rOf) :
    ∀ (kvs : List (Key × Yaml)) (d : LDef) (props : List (Key × PTy)) (addl : PTy),
      propsMatch lenv rOf d.fields props = true →
      (match d.inlineMap with
       | none => addl.isBot
       | some t => nodeMatch lenv rOf t addl) = true →
      decFields lenv d kvs = accProps penv props addl kvs
  | [], _, _, _, _, _ => by simp [decFields, accProps]
  | (k, v) :: rest, d, props, addl, hp, hi => by
    simp only [decFields, accProps]
    rw [sound_fields H rest d props addl hp hi]
    congr 1
    rcases propsMatch_assoc d.fields props hp k with ⟨h1, h2⟩ | ⟨t, p, h1, h2, h3⟩
    · simp only [LDef.child, h1, h2]
      cases hin : d.inlineMap with
      | none =>
        simp only [hin] at hi
        cases addl <;> simp [PTy.isBot] at hi
        rw [resolve_nonref _ _ _ (by rfl)]
        exact (accHead_bot v).symm
      | some t =>
        simp only [hin] at hi
        exact sound_y H v t addl hi
    · simp only [LDef.child, h1, h2]
      exact sound_y H v t p h3
end

end

/-- **Meta-theorem**: the finite table check implies key-acceptance agreement for every
    document. -/
theorem bisim_sound (F : FileFacts) (h : bisimCheck F = true) (y : Yaml) :
    strictDecode F.lenv (.ref F.lroot) y = pubAccepts F.penv (.ref F.proot) y :=
  sound_y (bisimCheck_hint F h) y _ _ (bisimCheck_root F h)

end Cog.Config
