import Cog.OMap.Model
import Cog.OMap.Spec
import Cog.OMap.Lemmas
import Cog.OMap.Refine
import Cog.Props.C19
