/-
  Line-protocol driver: one request per line on stdin, one reply per line on stdout.
  Core Lean only (no Mathlib) so that it links as `lean_exe drv`.
-/
import Cog.Drv.OMapDrv
import Cog.Drv.VirDrv
import Cog.Drv.PassDrv
import Cog.Drv.XformDrv
import Cog.Drv.BuilderDrv
import Cog.Drv.SchemaStore
import Cog.Drv.SemDrv
import Cog.Drv.MergeDrv
import Cog.Drv.EqualsDrv
import Cog.Drv.ValidateDrv
import Cog.Drv.ClosedDrv
import Cog.Drv.DeclDrv
import Cog.Drv.JsOutDrv
import Cog.Drv.DefaultsDrv
import Cog.Drv.PyDrv
import Cog.Drv.BuilderSemDrv
import Cog.Drv.TotalDrv
import Cog.Drv.SrcDenDrv
import Cog.Drv.FrontDrv
import Cog.Drv.FrontOaDrv
import Cog.Drv.FrontCueDrv
import Cog.Drv.KeepsDrv
import Cog.Drv.FrontEmitDrv
import Cog.Drv.PyDeclDrv
open Cog.Drv

def handle (line : String) : String :=
  let line := line.trimAscii.toString
  match line.splitOn " " with
  | "omap" :: rest => omapLine (" ".intercalate rest)
  | "vir" :: rest => virLine (" ".intercalate rest)
  | "consolidate" :: rest => consolidateLine (" ".intercalate rest)
  | "lpass" :: rest => lpassLine (" ".intercalate rest)
  | "chain" :: rest => chainLine (" ".intercalate rest)
  | "nf" :: rest => nfLine (" ".intercalate rest)
  | "ucc" :: rest => uccLine (" ".intercalate rest)
  | "c06witness" :: rest => witnessLine (" ".intercalate rest)
  | "xform" :: rest => xformLine (" ".intercalate rest)
  | "fromast" :: rest => fromastLine (" ".intercalate rest)
  | "c16pred" :: rest => c16predLine (" ".intercalate rest)
  | "c16witness" :: rest => c16witnessLine (" ".intercalate rest)
  | "bstr" :: rest => bstrLine (" ".intercalate rest)
  | "veneer" :: rest => veneerLine (" ".intercalate rest)
  | "closed" :: rest => closedLine (" ".intercalate rest)
  | "filter" :: rest => filterLine (" ".intercalate rest)
  | "reach" :: rest => reachLine (" ".intercalate rest)
  | "nameops" :: rest => nameopsLine (" ".intercalate rest)
  | "namesok" :: rest => namesokLine (" ".intercalate rest)
  | "c05witness" :: rest => c05witnessLine (" ".intercalate rest)
  | "c05chains" :: _ => c05chainsLine
  | "c05pass" :: rest => c05passLine (" ".intercalate rest)
  | "c05prefix" :: rest => c05prefixLine (" ".intercalate rest)
  | "wt" :: rest => wtLine (" ".intercalate rest)
  | "c17witness" :: rest => c17witnessLine (" ".intercalate rest)
  | "c04pred" :: rest => c04predLine (" ".intercalate rest)
  | _ => "bad-request"

/-- verbs that need the driver's schema store (IO) -/
def handleIO (line : String) : IO String := do
  let l := line.trimAscii.toString
  match l.splitOn " " with
  | "defschemas" :: rest => defSchemas (" ".intercalate rest)
  | "godec" :: rest => godecLine (" ".intercalate rest)
  | "goden" :: rest => godenLine (" ".intercalate rest)
  | "goequals" :: rest => goequalsLine (" ".intercalate rest)
  | "govalidate" :: rest => govalidateLine (" ".intercalate rest)
  | "gostrict" :: rest => gostrictLine (" ".intercalate rest)
  | "c08hyp" :: rest => c08hypLine (" ".intercalate rest)
  | "godecl" :: rest => godeclLine (" ".intercalate rest)
  | "jsemit" :: rest => jsemitLine (" ".intercalate rest)
  | "jsvalid" :: rest => jsvalidLine (" ".intercalate rest)
  | "jshyp" :: rest => jshypLine (" ".intercalate rest)
  | "jswf" :: rest => jswfLine (" ".intercalate rest)
  | "jsself" :: rest => jsselfLine (" ".intercalate rest)
  | "srcden" :: rest => srcdenLine (" ".intercalate rest)
  | "jsfdef" :: rest => jsfdefLine (" ".intercalate rest)
  | "jsfront" :: rest => jsfrontLine (" ".intercalate rest)
  | "jsfdoc" :: rest => jsfdocLine (" ".intercalate rest)
  | "oafdef" :: rest => oafdefLine (" ".intercalate rest)
  | "oafront" :: rest => oafrontLine (" ".intercalate rest)
  | "oafdoc" :: rest => oafdocLine (" ".intercalate rest)
  | "cuefdef" :: rest => cuefdefLine (" ".intercalate rest)
  | "cuefront" :: rest => cuefrontLine (" ".intercalate rest)
  | "cuefdoc" :: rest => cuefdocLine (" ".intercalate rest)
  | "jsfkeeps" :: rest => jsfkeepsLine (" ".intercalate rest)
  | "jsfc08" :: rest => jsfc08Line (" ".intercalate rest)
  | "jsfc12" :: rest => jsfc12Line (" ".intercalate rest)
  | "oafc12" :: rest => oafc12Line (" ".intercalate rest)
  | "oafkeeps" :: rest => oafkeepsLine (" ".intercalate rest)
  | "oafc08" :: rest => oafc08Line (" ".intercalate rest)
  | "srcpy" :: rest => srcpyLine (" ".intercalate rest)
  | "godefaults" :: rest => godefaultsLine (" ".intercalate rest)
  | "pydefaults" :: rest => pydefaultsLine (" ".intercalate rest)
  | "pyroundtrip" :: rest => pyroundtripLine (" ".intercalate rest)
  | "c11agree" :: rest => c11agreeLine (" ".intercalate rest)
  | "gobuild" :: rest => gobuildLine (" ".intercalate rest)
  | "goconvert" :: rest => goconvertLine (" ".intercalate rest)
  | "pybuild" :: rest => pybuildLine (" ".intercalate rest)
  | "pydecl" :: rest => pydeclLine (" ".intercalate rest)
  | _ => return handle line

partial def loop (h : IO.FS.Stream) (out : IO.FS.Stream) : IO Unit := do
  let line ← h.getLine
  if line.isEmpty then return ()
  out.putStrLn (← handleIO line)
  loop h out

def main : IO Unit := do
  let out ← IO.getStdout
  loop (← IO.getStdin) out
  out.flush
