/-
  Line-protocol driver: one request per line on stdin, one reply per line on stdout.
  Core Lean only (no Mathlib) so that it links as `lean_exe drv`.
-/
import Cog.Drv.OMapDrv
import Cog.Drv.VirDrv
open Cog.Drv

def handle (line : String) : String :=
  let line := line.trimAscii.toString
  match line.splitOn " " with
  | "omap" :: rest => omapLine (" ".intercalate rest)
  | "vir" :: rest => virLine (" ".intercalate rest)
  | _ => "bad-request"

partial def loop (h : IO.FS.Stream) (out : IO.FS.Stream) : IO Unit := do
  let line ← h.getLine
  if line.isEmpty then return ()
  out.putStrLn (handle line)
  loop h out

def main : IO Unit := do
  let out ← IO.getStdout
  loop (← IO.getStdin) out
  out.flush
